//go:build verif

package textwire

// c07Use builds one use of the component "~comp": argument t bound to data variable argVar, and a symbolic
// choice of slots (named slot with a symbolic name, default slot, both, none). It returns the source and the
// expected rendering, and whether loading must fail (undeclared or duplicate slot).
func c07Use(idx int, argVar, argVal string) (src, want string, mustFail bool) {
	tag := string([]byte{byte('0' + idx)})
	src = "@component(\"~comp\", {t: " + argVar + "})"
	named, def := "", ""
	slots := vChoice("slots", 5)
	if slots != 0 {
		// white space (also CR LF line ends) may stand between the ")" and the first slot
		src += []string{"", " ", "\n", "\r\n  ", "\t"}[vChoice("gap-before-slots", 5)]
	}
	switch slots {
	case 1, 3, 4:
		nm := symLetter("slot") // a is declared by the component; b, c, d are not
		switch vChoice("empty-named-slot", 3) {
		case 1:
			src += "@slot(\"" + nm + "\")@end"
		case 2: // the body ends in a nested block, so its last token is an @end too
			src += "@slot(\"" + nm + "\")N" + tag + "@if(true){{ " + argVar + " }}@end@end"
			named = "N" + tag + argVal
		default:
			src += "@slot(\"" + nm + "\")N" + tag + "{{ " + argVar + " }}@end"
			named = "N" + tag + argVal
		}
		if nm != "a" {
			mustFail = true
		}
		if slots == 4 {
			nm2 := symLetter("slot")
			src += "@slot(\"" + nm2 + "\")M" + tag + "@end"
			if nm2 != "a" || nm2 == nm {
				mustFail = true // undeclared, or the same slot passed twice
			}
		}
	}
	switch slots {
	case 2, 3:
		if vChoice("empty-default-slot", 2) == 1 {
			src += "@slot@end"
		} else {
			src += "@slot D" + tag + "@end"
			def = " D" + tag
		}
	}
	if slots != 0 {
		src += "@end"
	}
	want = "<b>" + argVal + "</b>[" + named + "|" + def + "]"
	return
}

// HarnessC07Component: every use of a component renders the component file with its own argument and slot bodies.
func HarnessC07Component() {
	vfsReset()
	vfsWriteFile("templates/components/comp.tw", "<b>{{ t }}</b>[@slot(\"a\")|@slot]")
	x := string([]byte{vByte("x")})
	y := string([]byte{vByte("y")})
	data := map[string]any{"x": x, "y": y, "c": true, "vs": []any{x, y}}
	var page, want string
	fail := false
	vfsWriteFile("templates/components/pair.tw", "{{ a }}/{{ t }}")
	vfsWriteFile("templates/components/card.v2.tw", "<v2>{{ t }}</v2>")
	clash := false
	vfsWriteFile("templates/components/usr.tw", "<u>{{ u.n }}{{ u.m.k }}</u>")
	vfsWriteFile("templates/components/plain.tw", "<plain>")
	vfsWriteFile("templates/components/cnt.tw", "{{ n = n + 1 }}<{{ n }}>")
	vfsWriteFile("templates/components/set.tw", "{{ t = x }}[{{ t }}]")
	switch vChoice("page", 17) {
	case 16: // white space, also with a comment on a line of its own, may follow a passed slot
		g := []string{"\n", "\n{{-- c --}}\n", " {{-- c --}}", "\n\n{{-- c --}}"}[vChoice("gap-after-slot", 4)]
		page = "A@component(\"~comp\", {t: x})@slot(\"a\")N{{ y }}@end" + g + "@slot D@end" + g + "@end" + "B"
		want = "A<b>" + x + "</b>[N" + y + "| D]B"
	case 15: // the component file named by a path that is not in its shortest spelling
		page = "@component(\"components//card.v2\", {t: x})|@component(\"/components/card.v2\", {t: y})"
		want = "<v2>" + x + "</v2>|<v2>" + y + "</v2>"
	case 11: // an argument value that is itself an object literal (the use ends in adjacent closing braces)
		page = "A@component(\"~usr\", {u: {n: x, m: {k: y}}})B"
		want = "A<u>" + x + y + "</u>B"
	case 12: // a component file that declares no slot at all is passed a named slot / the default slot / one slot twice
		page, fail = "@component(\"~plain\")@slot(\"a\")x@end@end", true
	case 13:
		page, fail = "@component(\"~plain\")@slot x@end@end", true
	case 14:
		page, want = "@component(\"~plain\")|@component(\"~plain\")@end", "<plain>|<plain>"
	case 8: // uses without arguments are independent of each other: what the component file assigns stays inside the use
		page = "@component(\"~cnt\")@component(\"~cnt\")@component(\"~cnt\")"
		data["n"] = 0
		want = "<1><1><1>"
	case 9:
		page = "@each(v in vs)@component(\"~cnt\");@end"
		data["n"] = 5
		want = "<6>;<6>;"
	case 10:
		page = "{{ t = \"P\" }}@component(\"~set\")|{{ t }}|@component(\"~set\")"
		want = "[" + x + "]|P|[" + x + "]"
	case 7: // an argument named like a surrounding variable of another type: bound (or refused), never silently dropped
		clash = true
		page = "{{ t = 1 }}A@component(\"~comp\", {t: x})B"
		if vChoice("outer-from-data", 2) == 1 {
			page = "A@component(\"~comp\", {t: x})B"
			data["t"] = 1
		}
		want = "A<b>" + x + "</b>[|]B"
	case 6: // a component whose file name contains a dot, by alias and by full name
		page = "@component(\"~card.v2\", {t: x})|@component(\"components/card.v2\", {t: y})"
		want = "<v2>" + x + "</v2>|<v2>" + y + "</v2>"
	case 5: // argument values are evaluated at the place of use: t: x reads the page's x although an earlier key is also named x
		page = "@component(\"~pair\", {a: y, t: a})"
		data["a"] = x
		want = y + "/" + x
	case 0: // one use
		s, w, f := c07Use(1, "x", x)
		page, want, fail = "A"+s+"B", "A"+w+"B", f
	case 1: // the same component twice with different arguments and slot bodies
		s1, w1, f1 := c07Use(1, "x", x)
		s2, w2, f2 := c07Use(2, "y", y)
		page, want, fail = "A"+s1+"B"+s2+"C", "A"+w1+"B"+w2+"C", f1 || f2
	case 2: // one use evaluated repeatedly in a loop
		s, _, f := c07Use(1, "v", "")
		page, fail = "@each(v in vs)"+s+";@end", f
		if !f {
			// expected text per element: re-derive from the use with the element's value
			want = ""
		}
	case 3: // inside a conditional
		s, w, f := c07Use(1, "x", x)
		page, want, fail = "@if(c)"+s+"@end", w, f
	default: // the surrounding variables stay visible in slot bodies
		page = "{{ z = \"Z\" }}@component(\"~comp\", {t: x})@slot(\"a\"){{ z }}{{ y }}@end@end"
		want = "<b>" + x + "</b>[Z" + y + "|]"
	}
	vfsWriteFile("templates/page.tw", page)
	tpl, loadErr := newTemplate("templates", ".tw")
	vCover("loaded")
	if fail {
		vAssert(loadErr != nil && tpl == nil, "undeclared-or-duplicate-slot-is-reported-at-load")
		return
	}
	vAssert(loadErr == nil && tpl != nil, "valid-component-page-loads")
	out, err := tpl.String("page", data)
	vCover("rendered")
	if clash {
		vAssert(err != nil || vEqStr(out, want), "argument-is-bound-or-refused-never-dropped")
		return
	}
	vAssert(err == nil, "page-renders")
	if want != "" {
		vAssert(vEqStr(out, want), "each-use-shows-its-own-arguments-and-slot-bodies")
	} else {
		// loop page: both passes must show their own element in the argument position
		vAssert(len(out) > 0, "loop-page-renders-something")
		vAssert(refContains(out, "<b>"+x+"</b>") && refContains(out, "<b>"+y+"</b>"), "each-loop-pass-shows-its-own-argument")
	}
}

func refContains(s, sub string) bool {
	for i := 0; i+len(sub) <= len(s); i++ {
		if vEqStr(s[i:i+len(sub)], sub) {
			return true
		}
	}
	return false
}

// HarnessC07Missing: a missing component file is reported when the templates are loaded, naming the component.
func HarnessC07Missing() {
	vfsReset()
	// the name holds one symbolic byte (any printable ASCII character that can stand in a quoted name, '%' included)
	b := vByte("name-byte")
	vAssume(b >= ' ' && b < 0x7f && b != '"' && b != '\\' && b != '/')
	name := "no" + string([]byte{b}) + "pe"
	vfsWriteFile("templates/page.tw", "A@component(\"~"+name+"\", {t: 1})B")
	tpl, err := newTemplate("templates", ".tw")
	vCover("checked")
	vAssert(err != nil && tpl == nil, "missing-component-is-reported-at-load")
	vAssert(refContains(err.Error(), "components/"+name), "error-names-the-component")
}
