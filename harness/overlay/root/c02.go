//go:build verif

package textwire

// symCond returns a data value of an enumerated kind with a symbolic payload and the truthiness the statement of
// C02 assigns to it; bound=false means the identifier is left out of the data map (evaluating it is an error).
func symCond(name string) (val any, bound bool, truthy bool) {
	switch vChoice(name+".kind", 15) {
	case 9: // values that are "zero" for Go but objects / arrays for the template
		return struct {
			A int
			S string
		}{}, true, true
	case 10:
		return []int(nil), true, true
	case 11:
		return map[string]int(nil), true, true
	case 12:
		return &struct{ A int }{}, true, true
	case 13:
		return (*struct{ A int })(nil), true, false
	case 0:
		b := vBool(name)
		return b, true, b
	case 1:
		i := vInt64(name)
		return i, true, i != 0
	case 2:
		f := vFloat64(name)
		return f, true, !(f == 0) // +0.0 and -0.0 are falsy, NaN is truthy
	case 3:
		return "", true, false
	case 4:
		return string([]byte{vByte(name)}), true, true
	case 5:
		return nil, true, false
	case 6:
		return []any{}, true, true
	case 7:
		return map[string]any{}, true, true
	case 8:
		return []any{0}, true, true
	}
	return nil, false, false
}

var c02Names = []string{"c0", "c1", "c2", "c3"}

// refIf: output of the construct, or failure when an unbound condition is evaluated.
func refIf(n int, bound, truthy []bool, bodies []string, hasElse bool, elseBody string) (string, bool) {
	for i := 0; i <= n; i++ {
		if !bound[i] {
			return "", false
		}
		if truthy[i] {
			return bodies[i], true
		}
	}
	if hasElse {
		return elseBody, true
	}
	return "", true
}

// HarnessC02If: P @if(c0)B0 {@elseif(ci)Bi}^n [@else E] @end S in four contexts; conditions are identifiers bound to
// values of every kind with symbolic payloads, or unbound.
func HarnessC02If() {
	n := vChoice("elseifs", vParam("E")+1)
	hasElse := vChoice("else", 2) == 1
	data := map[string]any{}
	bound := make([]bool, n+1)
	truthy := make([]bool, n+1)
	bodies := []string{"<B0>", "<B1>", "<B2>", "<B3>"}
	construct := ""
	gap := []string{"", " ", "\n", "\t "}[vChoice("gap-before-parenthesis", 4)]
	for i := 0; i <= n; i++ {
		v, b, t := symCond(c02Names[i])
		bound[i], truthy[i] = b, t
		if b {
			data[c02Names[i]] = v
		}
		if i == 0 {
			construct += "@if" + gap + "(" + c02Names[i] + ")" + bodies[i]
		} else {
			construct += "@elseif" + gap + "(" + c02Names[i] + ")" + bodies[i]
		}
	}
	if hasElse {
		construct += "@else<E>"
	}
	construct += "@end"
	inner, ok := refIf(n, bound, truthy, bodies, hasElse, "<E>")
	var src, want string
	switch vChoice("context", 4) {
	case 0:
		src, want = "P:"+construct+":S", "P:"+inner+":S"
	case 1:
		src, want = "a@if(true)b"+construct+"c@end d", "ab"+inner+"c d"
	case 2:
		src, want = "[@each(v in [1, 2])<"+construct+">@end]", "[<"+inner+"><"+inner+">]"
	default:
		src, want = "@if(false)x@else y"+construct+"z@end", " y"+inner+"z"
	}
	out, err := EvaluateString(src, data)
	vCover("rendered")
	if ok {
		vAssert(err == nil, "first-truthy-branch-renders-without-error")
		vAssert(vEqStr(out, want), "exactly-the-first-truthy-branch-is-rendered")
	} else {
		vAssert(err != nil && out == "", "error-in-an-evaluated-condition-fails-the-render")
	}
}

// HarnessC02Truthiness: the same truthiness table for the ternary, @breakIf and @continueIf.
func HarnessC02Truthiness() {
	v, bound, truthy := symCond("c")
	data := map[string]any{}
	if bound {
		data["c"] = v
	}
	var src, wantT, wantF string
	gap := []string{"", " ", "\n"}[vChoice("gap-before-parenthesis", 3)]
	switch vChoice("construct", 3) {
	case 0:
		src, wantT, wantF = "{{ c ? \"T\" : \"F\" }}", "T", "F"
	case 1:
		src, wantT, wantF = "@each(v in [1, 2, 3]){{ v }}@breakIf"+gap+"(c)|@end", "1", "1|2|3|"
	default:
		src, wantT, wantF = "@each(v in [1, 2, 3]){{ v }}@continueIf"+gap+"(c)|@end", "123", "1|2|3|"
	}
	out, err := EvaluateString(src, data)
	vCover("rendered")
	if !bound {
		vAssert(err != nil, "unbound-condition-is-an-error")
		return
	}
	vAssert(err == nil, "condition-of-any-type-is-accepted")
	if truthy {
		vAssert(out == wantT, "truthy-value-selects-the-true-behaviour")
	} else {
		vAssert(out == wantF, "falsy-value-selects-the-false-behaviour")
	}
}

// HarnessC02Empty: the same construct with any subset of its branch bodies (and of the @else body) left empty;
// conditions are data booleans.
func HarnessC02Empty() {
	n := vChoice("elseifs", 3)
	hasElse := vChoice("else", 2) == 1
	data := map[string]any{}
	bodies := []string{"<B0>", "<B1>", "<B2>"}
	shown := []string{"<B0>", "<B1>", "<B2>"}
	elseBody := "<E>"
	for i := 0; i <= n; i++ {
		switch vChoice("empty-body", 3) {
		case 1:
			bodies[i], shown[i] = "", ""
		case 2: // a body that ends in an assignment (it renders nothing itself)
			bodies[i], shown[i] = bodies[i]+"{{ zz = 1 }}", bodies[i]
		}
	}
	if hasElse && vChoice("empty-else", 2) == 1 {
		elseBody = ""
	}
	construct, want, chosen := "", "", false
	failing := -1 // index of a condition that is left out of the data: reaching it fails the render, empty bodies or not
	if vChoice("unbound-condition", 2) == 1 {
		failing = vChoice("unbound-index", n+1)
	}
	mustFail := false
	for i := 0; i <= n; i++ {
		c := vBool(c02Names[i])
		if i == failing {
			if !chosen {
				mustFail = true
			}
			c = false
		} else {
			data[c02Names[i]] = c
		}
		if i == 0 {
			construct += "@if(" + c02Names[i] + ")" + bodies[i]
		} else {
			construct += "@elseif(" + c02Names[i] + ")" + bodies[i]
		}
		if c && !chosen {
			want, chosen = shown[i], true
		}
	}
	if hasElse {
		construct += "@else" + elseBody
		if !chosen {
			want = elseBody
		}
	}
	construct += "@end"
	var src, exp string
	switch vChoice("context", 3) {
	case 0:
		src, exp = "P:"+construct+":S", "P:"+want+":S"
	case 1:
		src, exp = "[@each(v in [1, 2])<"+construct+">@end]", "[<"+want+"><"+want+">]"
	default:
		src, exp = construct, want
	}
	out, err := EvaluateString(src, data)
	vCover("rendered")
	if mustFail {
		vAssert(err != nil && out == "", "error-in-an-evaluated-condition-fails-the-render")
		return
	}
	vAssert(err == nil, "construct-with-empty-bodies-renders-without-error")
	vAssert(out == exp, "exactly-the-first-truthy-branch-is-rendered")
}


// HarnessC02Chain: an unparenthesised chain of ternaries a ? x : b ? y : z selects like nested @if/@elseif/@else;
// a condition that is an array literal with a failing element fails the render wherever it is reached.
func HarnessC02Chain() {
	a, b := vBool("a"), vBool("b")
	data := map[string]any{"a": a, "b": b, "zero": 0, "one": 1}
	var src, want string
	fails := false
	switch vChoice("shape", 17) {
	case 13: // object literals nested inside one another as a condition: the closing braces stand side by side
		src, want = "@if({a: {b: 1}})x@end|", "x|"
	case 14:
		src = "@if(a)x@elseif({o: {}})y@end"
		want = map[bool]string{true: "x", false: "y"}[a]
	case 15:
		src, want = "@if({a: {b: zero}}.a.b)x@end|", "|"
	case 16:
		src, want = "@each(v in [1, 2]){{ v }}@breakIf({a: {b: one}})@end", "1"
	case 10: // an object literal with a failing entry as a condition
		src = "@if(a)x@elseif({k: one, j: nope})y@else z@end"
		want, fails = "x", !a
	case 11:
		src = "{{ {nope} ? \"T\" : \"F\" }}"
		fails = true
	case 12:
		src = "@each(v in [1, 2]){{ v }}@continueIf({k: 1 / zero})@end"
		fails = true
	case 6: // a branch body that starts with a letter the longer keyword starts with
		src = "@if(a)valid@elseinvalid@end"
		want = map[bool]string{true: "valid", false: "invalid"}[a]
	case 7: // a condition behind the chosen branch is not evaluated, even when it divides by a literal zero
		src = "@if(a)x@elseif(1 / 0)y@else z@end"
		want, fails = "x", !a
	case 8:
		src = "@if(a)x@elseif(b)y@elseif(1 % 0)w@end"
		want, fails = map[bool]string{true: "x", false: "y"}[a], !a && !b
	case 9:
		src = "{{ a ? \"A\" : 1 / 0 }}"
		want, fails = "A", !a
	case 0:
		src = "{{ a ? \"A\" : b ? \"B\" : \"C\" }}"
		want = map[bool]string{true: "A", false: map[bool]string{true: "B", false: "C"}[b]}[a]
	case 1: // the value chosen by the first condition is falsy itself: it must not be taken for the next condition
		src = "{{ a ? zero : b ? \"B\" : \"C\" }}"
		want = map[bool]string{true: "0", false: map[bool]string{true: "B", false: "C"}[b]}[a]
	case 2:
		src = "{{ a ? \"A\" : (b ? \"B\" : \"C\") }}"
		want = map[bool]string{true: "A", false: map[bool]string{true: "B", false: "C"}[b]}[a]
	case 3: // array literal as a condition: its elements are evaluated, a failing one fails the render
		src = "@if(a)x@elseif([one, nope])y@else z@end"
		want, fails = "x", !a
	case 4:
		src = "{{ [one, nope, one] ? \"T\" : \"F\" }}"
		fails = true
	default:
		src = "@each(v in [1, 2]){{ v }}@breakIf([zero, nope])@end"
		fails = true
	}
	out, err := EvaluateString(src, data)
	vCover("rendered")
	if fails {
		vAssert(err != nil && out == "", "error-in-an-evaluated-condition-fails-the-render")
		return
	}
	vAssert(err == nil, "chain-renders-without-error")
	vAssert(out == want, "exactly-the-first-truthy-branch-is-rendered")
}
