//go:build verif

package textwire

import (
	"strings"

	"github.com/textwire/textwire/v2/config"
)

var c18Files = []string{"a", "sub/c", "sub/deep/d", ".hid/g", "a.bak", "b.twx", "x.tw/e.txt", "notes.txt", "sub/f.tw.old"}

// HarnessC18Names: loading registers exactly the files whose names end in the extension, under their path relative
// to the template directory without the extension, for several spellings of the directory.
func HarnessC18Names() {
	vfsReset()
	ext := []string{".tw", ".tw.html", ".t"}[vChoice("ext", 3)]
	dirSpelling := []string{"tpl", "tpl/", "./tpl", "nest/tpl", "tpl//", "other/../tpl", "tpl/sub/..", "tpl/.", "tpl/sub/deep/../..",
		".", "./", "tpl/..", "other/../"}[vChoice("dir", 13)]
	real := "tpl"
	if dirSpelling == "nest/tpl" {
		real = "nest/tpl"
	}
	prefix := "" // spellings that clean to the working directory itself: names carry the sub-directory
	if dirSpelling == "." || dirSpelling == "./" || dirSpelling == "tpl/.." || dirSpelling == "other/../" {
		prefix = "tpl/"
	}
	vfsMkdir("other")
	// which of the candidate files exist is a (enumerated) subset: one "template" file set plus one decoy
	decoy := vChoice("decoy", len(c18Files))
	want := map[string]bool{}
	for i, f := range c18Files[:4] {
		_ = i
		vfsWriteFile(real+"/"+f+ext, "T:"+f)
		want[prefix+f] = true
	}
	d := c18Files[decoy]
	if decoy >= 4 {
		// decoys carry the extension inside their name or directory, never at the end
		name := strings.Replace(d, ".tw", ext, 1)
		if !strings.HasSuffix(name, ext) {
			vfsWriteFile(real+"/"+name, "decoy")
		}
	}
	tpl, err := NewTemplate(&config.Config{TemplateDir: dirSpelling, TemplateExt: ext})
	vCover("loaded")
	vAssert(err == nil && tpl != nil, "valid-tree-loads")
	vAssert(len(tpl.programs) == len(want), "exactly-the-files-ending-in-the-extension-are-registered")
	for n := range want {
		out, ferr := tpl.String(n, nil)
		vAssert(ferr == nil && out == "T:"+n[len(prefix):], "template-is-addressable-by-relative-name-without-extension")
	}
	_, nerr := tpl.String("unknown", nil)
	vAssert(nerr != nil, "unknown-name-is-not-found")
}

// HarnessC18DoubleExt: a layout and a component whose template names themselves end in the extension.
func HarnessC18DoubleExt() {
	vfsReset()
	ext := []string{".tw", ".t"}[vChoice("ext", 2)]
	x := string([]byte{vByte("x")})
	vfsWriteFile("templates/layouts/main"+ext+ext, "L[@reserve(\"r\")]")
	vfsWriteFile("templates/components/card"+ext+ext, "<{{ t }}>")
	if vChoice("shorter-sibling", 2) == 1 {
		vfsWriteFile("templates/layouts/main"+ext, "WRONG[@reserve(\"r\")]")
	}
	vfsWriteFile("templates/p"+ext, "P1")
	vfsWriteFile("templates/p"+ext+ext, "P2")
	vfsWriteFile("templates/page"+ext, "@use(\"~main"+ext+"\")@insert(\"r\")@component(\"~card"+ext+"\", {t: x})@end")
	tpl, err := newTemplate("templates", ext)
	vCover("loaded")
	vAssert(err == nil && tpl != nil, "tree-with-names-ending-in-the-extension-loads")
	out, ferr := tpl.String("page", map[string]any{"x": x})
	vAssert(ferr == nil && vEqStr(out, "L[<"+x+">]"), "layout-and-component-are-found-by-their-full-name")
	p1, e1 := tpl.String("p", nil)
	p2, e2 := tpl.String("p"+ext, nil)
	vAssert(e1 == nil && p1 == "P1" && e2 == nil && p2 == "P2", "a-requested-name-is-taken-as-it-is")
	_, e3 := tpl.String("page"+ext, nil)
	vAssert(e3 != nil, "unknown-name-is-not-found")
}

// HarnessC18NameKernel: nameFromPath on a path with symbolic bytes strips exactly the directory prefix and the
// extension suffix (the extension may also occur earlier in the path).
func HarnessC18NameKernel() {
	ext := []string{".tw", ".t"}[vChoice("ext", 2)]
	userConfig.TemplateDir = "d"
	userConfig.TemplateExt = ext
	n := vParam("N")
	b := make([]byte, n)
	for i := range b {
		b[i] = vByte("p")
		c := b[i]
		vAssume(c == 'a' || c == '.' || c == 't' || c == 'w' || c == '/' || c == 'd')
	}
	rel := string(b) + "x" // the file name proper ends in a letter before the extension
	vAssume(refIsCleanRel(rel)) // filepath.Walk hands out cleaned paths
	path := "d/" + rel + ext
	got := nameFromPath(path)
	vCover("computed")
	vAssert(vEqStr(got, rel), "name-is-the-relative-path-without-the-extension")
}

const c18Layout = "L[@reserve(\"a\")]"
const c18LayoutWithComp = "L@component(\"~lc\", {t: 2})[@reserve(\"a\")]"
const c18Comp = "<c>{{ t }}</c>"
const c18Page = "@use(\"~main\")@insert(\"a\")P@component(\"~card\", {t: 1})@end"
const c18PageShort = "@use(\"~main\")@insert(\"a\", \"P\")@component(\"~card\", {t: 1})"

// HarnessC18Faulty: one faulty file (missing, truncated, garbage, dangling link, directory in its place) makes
// loading return a nil Template and an error naming the file; it never panics or hangs.
func HarnessC18Faulty() {
	vfsReset()
	pn := vChoice("page-name", 2)
	files := []struct{ path, content string }{
		{"templates/layouts/main.tw", c18LayoutWithComp},
		{"templates/components/card.tw", c18Comp},
		// the page's name sorts after or before the names of the files it uses
		{[]string{"templates/page.tw", "templates/about.tw"}[pn], []string{c18Page, c18PageShort}[vChoice("insert-form", 2)]},
		{"templates/components/lc.tw", c18Comp}, // used by the layout only
	}
	which := vChoice("file", 4)
	kind := vChoice("fault", 6)
	for i, f := range files {
		if i != which {
			vfsWriteFile(f.path, f.content)
			continue
		}
		switch kind {
		case 0: // deleted
		case 1: // truncated at a symbolic-free cut point, followed by one symbolic byte
			cut := vChoice("cut", len(f.content))
			g := vByte("garbage")
			vAssume(g != 0)
			vfsWriteFile(f.path, f.content[:cut]+string([]byte{g}))
		case 2: // replaced by garbage
			vfsWriteFile(f.path, symBytes("g", 3))
		case 5: // replaced by text that is syntactically wrong whatever surrounds it
			vfsWriteFile(f.path, "<c>\n{{ 1 + }}</c>")
		case 3:
			vfsDangling(f.path)
		case 4:
			vfsMkdir(f.path)
		}
	}
	tpl, err := newTemplate("templates", ".tw")
	vCover("returned")
	cwd := vfsCwd()
	names := []string{"layouts/main", "components/card", []string{"page", "about"}[pn], "components/lc"}
	mustFail := kind == 0 || kind == 3 || kind == 4
	if which == 2 && kind == 0 {
		mustFail = false // a deleted page is simply not there
	}
	if which == 2 && kind == 4 {
		mustFail = false // a directory named page.tw holds no template files
	}
	if mustFail || kind == 5 {
		vAssert(err != nil && tpl == nil, "faulty-file-makes-loading-fail")
	}
	if kind == 5 && err != nil {
		// the syntax error is the only fault there is: the error names the file that holds it
		vAssert(hasSub(err.Error(), cwd+"/"+files[which].path), "error-identifies-the-syntactically-wrong-file")
	}
	if err != nil {
		vCover("load-error")
		vAssert(tpl == nil, "failed-load-returns-a-nil-template")
		msg := err.Error()
		if which != 2 && mustFail {
			// a missing or unreadable layout / component is identified by its path, or by its name when the file is absent
			vAssert(hasSub(msg, cwd+"/"+files[which].path) || hasSub(msg, names[which]), "error-identifies-the-missing-or-unreadable-file")
		} else if which != 2 {
			// a damaged layout / component may still parse (as plain text); the fault is then the page's undefined insert or slot
			vAssert(hasSub(msg, cwd+"/"+files[which].path) || hasSub(msg, names[which]) || hasSub(msg, cwd+"/"+files[2].path),
				"error-identifies-the-faulty-file-or-the-page-that-needs-it")
		} else if mustFail {
			// a damaged page may name any layout/component; then the error names that (absent) file instead
			vAssert(hasSub(msg, cwd+"/"+files[which].path) || hasSub(msg, names[which]), "error-identifies-the-faulty-page")
		}
	}
}

// HarnessC18EvaluateFile: evaluating a file by path equals evaluating its content as a string.
func HarnessC18EvaluateFile() {
	vfsReset()
	content := "a{{ x }}" + symBytes("c", vParam("N"))
	vfsWriteFile("some/dir/file.txt", content)
	x := string([]byte{vByte("x")})
	data := map[string]any{"x": x}
	switch vChoice("before", 3) {
	case 1: // a template directory was loaded earlier in the process
		vfsWriteFile("templates/p.tw", "p")
		tpl, lerr := newTemplate("templates", ".tw")
		vAssert(lerr == nil && tpl != nil, "valid-tree-loads")
	case 2: // ... or failed to load
		vfsWriteFile("broken/p.tw", "{{ 1 + }}")
		tpl, lerr := newTemplate("broken", ".tw")
		vAssert(lerr != nil && tpl == nil, "faulty-file-makes-loading-fail")
	}
	out1, err1 := EvaluateFile(vfsCwd()+"/some/dir/file.txt", data)
	out2, err2 := EvaluateString(content, data)
	vCover("evaluated")
	vAssert((err1 == nil) == (err2 == nil), "file-and-string-evaluation-fail-together")
	if err1 == nil {
		vAssert(vEqStr(out1, out2), "file-evaluation-equals-string-evaluation")
	}
}

// refIsCleanRel: no empty, "." or ".." segments and no leading slash.
func refIsCleanRel(s string) bool {
	start := 0
	for i := 0; i <= len(s); i++ {
		if i == len(s) || s[i] == '/' {
			seg := s[start:i]
			if seg == "" || seg == "." || seg == ".." {
				return false
			}
			start = i + 1
		}
	}
	return true
}


// HarnessC18BigFile: a file of more than one MiB evaluated by path equals its content evaluated as a string (the whole
// content is concrete except for one symbolic byte behind the first MiB).
func HarnessC18BigFile() {
	vfsReset()
	n := 1<<20 + vChoice("extra", 3) // 1 MiB, 1 MiB + 1, 1 MiB + 2 bytes of text in front of the code
	b := make([]byte, n)
	for i := range b {
		b[i] = 'a'
	}
	x := vByte("x")
	vAssume(x >= 'a' && x <= 'z')
	content := string(b) + string([]byte{x}) + "{{ 1 + 1 }}"
	vfsWriteFile("big/file.txt", content)
	out1, err1 := EvaluateFile(vfsCwd()+"/big/file.txt", nil)
	vCover("evaluated")
	vAssert(err1 == nil, "file-evaluation-succeeds")
	vAssert(len(out1) == n+2 && out1[n] == x && out1[n+1] == '2' && out1[0] == 'a' && out1[n-1] == 'a', "file-evaluation-equals-string-evaluation")
}

// HarnessC18Cycles: component files that use each other (or themselves) do not keep loading from returning.
func HarnessC18Cycles() {
	vfsReset()
	switch vChoice("shape", 3) {
	case 0:
		vfsWriteFile("templates/components/card.tw", "<c>@component(\"~badge\")</c>")
		vfsWriteFile("templates/components/badge.tw", "<b>@component(\"~card\")</b>")
	case 1:
		vfsWriteFile("templates/components/card.tw", "<c>@component(\"~card\")</c>")
		vfsWriteFile("templates/components/badge.tw", "b")
	default:
		vfsWriteFile("templates/components/card.tw", "<c>@component(\"~badge\")</c>")
		vfsWriteFile("templates/components/badge.tw", "<b>@component(\"~third\")</b>")
		vfsWriteFile("templates/components/third.tw", "<t>@component(\"~card\")</t>")
	}
	vfsWriteFile("templates/page.tw", "P@component(\"~card\")")
	tpl, err := newTemplate("templates", ".tw")
	vCover("returned")
	vAssert((tpl == nil) != (err == nil), "template-or-error")
	if tpl != nil {
		_, _ = tpl.String("page", nil)
	}
}
