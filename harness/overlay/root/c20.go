//go:build verif

package textwire

import "reflect"

// c20Name: a function name - one symbolic letter over a..c, or the built-in name "len".
func c20Name(label string) string {
	if vChoice(label+".builtin", 2) == 1 {
		return "len"
	}
	b := vByte(label)
	vAssume(b >= 'a' && b <= 'c')
	if b == 'c' {
		return "c64" // an identifier with digits in it
	}
	return string([]byte{b})
}

type c20Call struct {
	tag  int
	recv any
	args []any
}

var c20Types = []string{"strings", "arrays", "integers", "floats", "booleans"}
var c20Recv = []string{"\"r\"", "[1, \"x\"]", "5", "2.5", "true"}
var c20HasLen = []bool{true, true, true, false, false}
var c20LenOut = []string{"1", "2", "1", "", ""}

const c20Args = "1, \"s\", 2.5, [1, [2, \"x\"]], {k: {j: nil}}, true, nil"

func c20WantArgs() []any {
	return []any{int64(1), "s", 2.5, []any{int64(1), []any{int64(2), "x"}}, map[string]any{"k": map[string]any{"j": nil}}, true, nil}
}

// HarnessC20Registry: histories of Register*/call operations over symbolic names and the five receiver types.
func HarnessC20Registry() {
	// a Template loaded (and used once) before any registration: calls through it see later registrations too
	vfsReset()
	for _, n := range []string{"a", "b", "c64", "len"} {
		vfsWriteFile("templates/c"+n+".tw", "{{ v."+n+"("+c20Args+") }}")
	}
	vfsWriteFile("templates/plain.tw", "plain")
	vfsWriteFile("templates/layouts/l.tw", "[@reserve(\"r\")]")
	vfsWriteFile("templates/components/box.tw", "<@slot>")
	for _, n := range []string{"a", "len"} {
		vfsWriteFile("templates/i"+n+".tw", "@use(\"~l\")@insert(\"r\"){{ v."+n+"("+c20Args+") }}@end")
		vfsWriteFile("templates/s"+n+".tw", "@component(\"~box\")@slot{{ v."+n+"("+c20Args+") }}@end@end")
	}
	tpl, lerr := newTemplate("templates", ".tw")
	vAssert(lerr == nil && tpl != nil, "templates-load")
	if first, ferr := tpl.String("plain", nil); ferr != nil || first != "plain" {
		vFail("plain-page-renders")
	}
	k := vParam("K")
	registry := [5]map[string]int{{}, {}, {}, {}, {}}
	var last *c20Call
	nextTag := 1
	for step := 0; step < k; step++ {
		t := vChoice("type", 5)
		name := c20Name("name")
		if vChoice("op", 2) == 0 {
			// register
			tag := nextTag
			nextTag++
			var err error
			switch t {
			case 0:
				err = RegisterStrFunc(name, func(s string, args ...any) string {
					last = &c20Call{tag, s, args}
					return "S" + string([]byte{byte('0' + tag)}) + s
				})
			case 1:
				err = RegisterArrFunc(name, func(a []any, args ...any) []any {
					last = &c20Call{tag, a, args}
					return append(append([]any{}, a...), "A"+string([]byte{byte('0' + tag)}))
				})
			case 2:
				err = RegisterIntFunc(name, func(i int, args ...any) int {
					last = &c20Call{tag, i, args}
					return i*10 + tag
				})
			case 3:
				err = RegisterFloatFunc(name, func(f float64, args ...any) float64 {
					last = &c20Call{tag, f, args}
					return f + float64(tag)
				})
			default:
				err = RegisterBoolFunc(name, func(b bool, args ...any) bool {
					last = &c20Call{tag, b, args}
					return !b
				})
			}
			_, exists := registry[t][name]
			if exists {
				vAssert(err != nil, "second-registration-for-the-same-type-fails")
			} else {
				vAssert(err == nil, "first-registration-succeeds")
				registry[t][name] = tag
			}
			continue
		}
		// call on a literal receiver, or on a variable holding the same value
		src := "{{ " + c20Recv[t] + "." + name + "(" + c20Args + ") }}"
		var data map[string]any
		throughTemplate := false
		viaFile := false
		switch vChoice("via", vParam("V")) { // V = how many of the six ways of calling are drawn from
		case 5: // a file evaluated by path
			data = map[string]any{"v": []any{"r", []any{1, "x"}, 5, 2.5, true}[t]}
			viaFile = true
		case 4: // through the Template that was loaded before the registrations, receiver from the Go data
			data = map[string]any{"v": []any{"r", []any{1, "x"}, 5, 2.5, true}[t]}
			throughTemplate = true
		case 1: // a template variable
			src = "{{ v = " + c20Recv[t] + " }}{{ v." + name + "(" + c20Args + ") }}"
		case 2: // a value that comes from the Go data
			data = map[string]any{"v": []any{"r", []any{1, "x"}, 5, 2.5, true}[t]}
			src = "{{ v." + name + "(" + c20Args + ") }}"
		case 3: // a value that a built-in function or an operator produced
			src = "{{ " + []string{"\"R\".lower()", "[1].append(\"x\")", "(2 + 3)", "(2.0 + 0.5)", "[1, 2].contains(2)"}[t] + "." + name + "(" + c20Args + ") }}"
		}
		last = nil
		var out string
		var err error
		if viaFile {
			vfsWriteFile("one/file.txt", "{{ v."+name+"("+c20Args+") }}")
			out, err = EvaluateFile(vfsCwd()+"/one/file.txt", data)
		} else if throughTemplate {
			prefix := "c" // top level; for the names a and len also inside an insert block and inside a slot body
			if name == "a" || name == "len" {
				prefix = []string{"c", "i", "s"}[vChoice("position", 3)]
			}
			o, e := tpl.String(prefix+name, data)
			if e == nil && prefix != "c" && len(o) >= 2 {
				o = o[1 : len(o)-1] // the layout's [ ] / the component's < >
			}
			out = o
			if e != nil {
				err = e.Error()
			}
		} else {
			out, err = EvaluateString(src, data)
		}
		tag, registered := registry[t][name]
		switch {
		case name == "len" && c20HasLen[t]:
			vAssert(err == nil && out == c20LenOut[t], "builtin-of-that-name-takes-precedence")
			vAssert(last == nil, "custom-function-is-not-called-when-a-builtin-exists")
		case registered:
			vCover("custom-called")
			vAssert(err == nil, "registered-function-is-callable")
			vAssert(last != nil && last.tag == tag, "call-reaches-the-first-registered-function")
			var wantRecv any
			var wantOut string
			d := string([]byte{byte('0' + tag)})
			switch t {
			case 0:
				wantRecv, wantOut = "r", "S"+d+"r"
			case 1:
				wantRecv, wantOut = []any{int64(1), "x"}, "1, x, A"+d
			case 2:
				wantRecv, wantOut = 5, "5"+d
			case 3:
				wantRecv, wantOut = 2.5, string([]byte{byte('2' + tag)})+".5"
			default:
				wantRecv, wantOut = true, "0"
			}
			vAssert(reflect.DeepEqual(last.recv, wantRecv), "receiver-arrives-as-the-plain-go-value")
			vAssert(reflect.DeepEqual(last.args, c20WantArgs()), "arguments-arrive-as-plain-go-values")
			vAssert(out == wantOut, "result-renders-as-if-passed-as-data")
		default:
			vCover("unregistered")
			vAssert(err != nil && out == "", "unregistered-name-is-an-error")
			vAssert(hasSub(err.Error(), name), "error-names-the-function")
		}
	}
	vCover("done")
}


// HarnessC20Values: what a custom function does to the value it received stays its own business, and what it
// returns appears exactly as if that Go value had been passed as data.
func HarnessC20Values() {
	var got [][]any
	rerr := RegisterArrFunc("grab", func(a []any, args ...any) []any {
		// the function keeps what it got and then scribbles over the slices it was handed
		cp := append([]any{}, a...)
		got = append(got, cp)
		for i := range a {
			a[i] = "X"
		}
		for _, arg := range args {
			if s, ok := arg.([]any); ok {
				got = append(got, append([]any{}, s...))
				for i := range s {
					s[i] = "Y"
				}
			}
		}
		return cp
	})
	vAssert(rerr == nil, "first-registration-succeeds")
	rerr = RegisterArrFunc("none", func(a []any, args ...any) []any { return nil })
	vAssert(rerr == nil, "first-registration-succeeds")
	rerr = RegisterArrFunc("chans", func(a []any, args ...any) []any { return []any{1, make(chan int)} })
	vAssert(rerr == nil, "first-registration-succeeds")
	rerr = RegisterArrFunc("funcs", func(a []any, args ...any) []any { return []any{map[string]any{"k": func() {}}} })
	vAssert(rerr == nil, "first-registration-succeeds")
	var src, want string
	shape := vChoice("shape", 9)
	if shape >= 6 {
		// a result that could not be passed as data either (it holds a channel / a function) is an error, as it is for data
		src := []string{"{{ [1].chans() }}", "{{ [1].chans().len() }}", "x{{ [1].funcs()[0].k }}"}[shape-6]
		out, err := EvaluateString(src, nil)
		vCover("rendered")
		vAssert(err != nil && out == "", "unsupported-result-is-an-error-as-it-is-for-data")
		return
	}
	switch shape {
	case 0: // the same array variable passed to two calls
		src, want = "{{ v = [3, 9, 1] }}{{ v.grab() }}|{{ v.grab() }}|{{ v }}", "3, 9, 1|3, 9, 1|3, 9, 1"
	case 1: // ... as an argument, twice
		src, want = "{{ v = [3, 9] }}{{ [0].grab(v) }}{{ [0].grab(v).len() }}|{{ v }}", "01|3, 9"
	case 2: // nested inside the receiver
		src, want = "{{ v = [1, 2]; w = [v, v] }}{{ w.grab().len() }}{{ w.grab().len() }}|{{ w }}", "22|1, 2, 1, 2"
	case 3: // a nil slice result is an empty array, as a nil slice in the data is
		src, want = "{{ [1].none().len() }}|@each(x in [1].none())x@else E@end|{{ [1].none() ? \"T\" : \"F\" }}", "0| E|T"
	case 4:
		src, want = "{{ a = [5]; a = [1].none(); a.append(2) }}", "2"
	default:
		src, want = "{{ v = [1, 2] }}{{ v.grab().len() }}{{ v.contains(1) }}{{ v.len() }}", "212"
	}
	out, err := EvaluateString(src, nil)
	vCover("rendered")
	vAssert(err == nil, "registered-function-is-callable")
	vAssert(out == want, "result-renders-as-if-passed-as-data")
	for _, g := range got {
		for _, e := range g {
			_, isStr := e.(string)
			vAssert(!isStr, "arguments-arrive-as-plain-go-values")
		}
	}
}

// c20Register registers a function of receiver type t that records its tag in *last.
func c20Register(t int, name string, tag int, last *int) error {
	switch t {
	case 0:
		return RegisterStrFunc(name, func(s string, args ...any) string { *last = tag; return s })
	case 1:
		return RegisterArrFunc(name, func(a []any, args ...any) []any { *last = tag; return a })
	case 2:
		return RegisterIntFunc(name, func(i int, args ...any) int { *last = tag; return i })
	case 3:
		return RegisterFloatFunc(name, func(f float64, args ...any) float64 { *last = tag; return f })
	}
	return RegisterBoolFunc(name, func(b bool, args ...any) bool { *last = tag; return b })
}

// HarnessC20Survive: a function registered for any receiver type stays registered and callable through every later
// registration of any type and name: the later one neither replaces nor removes it, and its name stays taken.
func HarnessC20Survive() {
	last := 0
	t1 := vChoice("type", 5)
	vAssert(c20Register(t1, "a", 1, &last) == nil, "first-registration-succeeds")
	laterRegs := 1 + vChoice("later-registrations", 2)
	for i := 0; i < laterRegs; i++ {
		t2 := vChoice("later-type", 5)
		n2 := []string{"a", "b"}[vChoice("later-name", 2)]
		err := c20Register(t2, n2, 2+i, &last)
		if t2 == t1 && n2 == "a" {
			vAssert(err != nil, "second-registration-for-the-same-type-fails")
		}
	}
	out, err := EvaluateString("{{ "+c20Recv[t1]+".a() }}", nil)
	vCover("custom-called")
	vAssert(err == nil && out != "", "registered-function-is-callable")
	vAssert(last == 1, "call-reaches-the-first-registered-function")
	vAssert(c20Register(t1, "a", 9, &last) != nil, "second-registration-for-the-same-type-fails")
}
