//go:build verif

package textwire

import (
	"github.com/textwire/textwire/v2/ast"
	"github.com/textwire/textwire/v2/ctx"
	"github.com/textwire/textwire/v2/evaluator"
	"github.com/textwire/textwire/v2/object"
)

// ---- reference semantics written from the statement of C01 ----

const (
	rInt = iota
	rBool
	rFloat
	rStr
	rErr
	rUnspec // the statement does not say (e.g. bool == bool)
	rNil
)

type rv struct {
	kind int
	i    int64
	b    bool
	f    float64
	s    string
}

var opLexemes = []string{"+ ", "- ", "* ", "/ ", "% ", "==", "!=", "< ", "> ", "<=", ">="}

const (
	opAdd = iota
	opSub
	opMul
	opDiv
	opMod
	opEq
	opNe
	opLt
	opGt
	opLe
	opGe
)

// binding power: equality < comparison < additive < multiplicative
func refPrec(op int) int {
	switch op {
	case opEq, opNe:
		return 1
	case opLt, opGt, opLe, opGe:
		return 2
	case opAdd, opSub:
		return 3
	}
	return 4
}

func refBin(op int, l, r rv) rv {
	if l.kind == rErr || l.kind == rUnspec {
		return l
	}
	if r.kind == rErr || r.kind == rUnspec {
		return r
	}
	if l.kind != r.kind {
		return rv{kind: rErr}
	}
	switch l.kind {
	case rInt:
		a, b := l.i, r.i
		switch op {
		case opAdd:
			return rv{kind: rInt, i: a + b}
		case opSub:
			return rv{kind: rInt, i: a - b}
		case opMul:
			return rv{kind: rInt, i: a * b}
		case opDiv:
			if b == 0 {
				return rv{kind: rErr}
			}
			return rv{kind: rInt, i: a / b}
		case opMod:
			if b == 0 {
				return rv{kind: rErr}
			}
			return rv{kind: rInt, i: a % b}
		case opEq:
			return rv{kind: rBool, b: a == b}
		case opNe:
			return rv{kind: rBool, b: a != b}
		case opLt:
			return rv{kind: rBool, b: a < b}
		case opGt:
			return rv{kind: rBool, b: a > b}
		case opLe:
			return rv{kind: rBool, b: a <= b}
		case opGe:
			return rv{kind: rBool, b: a >= b}
		}
	case rFloat:
		a, b := l.f, r.f
		switch op {
		case opAdd:
			return rv{kind: rFloat, f: a + b}
		case opSub:
			return rv{kind: rFloat, f: a - b}
		case opMul:
			return rv{kind: rFloat, f: a * b}
		case opDiv:
			return rv{kind: rFloat, f: a / b}
		case opMod:
			return rv{kind: rUnspec}
		case opEq:
			return rv{kind: rBool, b: a == b}
		case opNe:
			return rv{kind: rBool, b: a != b}
		case opLt:
			return rv{kind: rBool, b: a < b}
		case opGt:
			return rv{kind: rBool, b: a > b}
		case opLe:
			return rv{kind: rBool, b: a <= b}
		case opGe:
			return rv{kind: rBool, b: a >= b}
		}
	case rStr:
		switch op {
		case opAdd:
			return rv{kind: rStr, s: l.s + r.s}
		case opEq:
			return rv{kind: rBool, b: l.s == r.s}
		case opNe:
			return rv{kind: rBool, b: l.s != r.s}
		}
		return rv{kind: rUnspec}
	}
	return rv{kind: rUnspec}
}

// refChain groups v0 op0 v1 op1 v2 ... by binding power, left to right among equals.
func refChain(vals []rv, ops []int) rv {
	vs := []rv{vals[0]}
	var os []int
	reduce := func() {
		r := vs[len(vs)-1]
		l := vs[len(vs)-2]
		op := os[len(os)-1]
		vs = vs[:len(vs)-2]
		os = os[:len(os)-1]
		vs = append(vs, refBin(op, l, r))
	}
	for i, op := range ops {
		for len(os) > 0 && refPrec(os[len(os)-1]) >= refPrec(op) {
			reduce()
		}
		os = append(os, op)
		vs = append(vs, vals[i+1])
	}
	for len(os) > 0 {
		reduce()
	}
	return vs[0]
}

// symOperator returns two symbolic bytes constrained to spell one of the binary operators, and which one.
func symOperator(name string) (string, int) {
	o0, o1 := vByte(name), vByte(name)
	for k, lx := range opLexemes {
		if o0 == lx[0] && o1 == lx[1] {
			return string([]byte{o0, o1}), k
		}
	}
	vAssume(false)
	return "", 0
}

// evalLast parses src and evaluates its statements with the real evaluator, returning the last value.
func evalLast(src string, data map[string]any) (object.Object, bool) {
	prog, errs := parseStr(src)
	if len(errs) != 0 {
		return nil, false
	}
	env, envErr := object.EnvFromMap(data)
	if envErr != nil {
		return nil, false
	}
	ev := evaluator.New(ctx.NewContext("", customFunc, userConfig))
	var last object.Object
	for _, st := range prog.Statements {
		if _, isText := st.(*ast.HTMLStmt); isText {
			continue
		}
		last = ev.Eval(st, env)
		if last.Is(object.ERR_OBJ) {
			return last, true
		}
	}
	return last, true
}

// checkAgainst compares the evaluator's result object with the reference value.
func checkAgainst(obj object.Object, parsed bool, want rv, tag string) {
	switch want.kind {
	case rUnspec:
		return
	case rErr:
		vAssert(!parsed || obj == nil || obj.Is(object.ERR_OBJ), tag+"-must-be-an-error")
		return
	}
	vAssert(parsed, tag+"-must-parse")
	vAssert(obj != nil && !obj.Is(object.ERR_OBJ), tag+"-must-not-fail")
	switch want.kind {
	case rInt:
		o, ok := obj.(*object.Int)
		vAssert(ok, tag+"-result-is-integer")
		vAssert(o.Value == want.i, tag+"-integer-value")
	case rBool:
		o, ok := obj.(*object.Bool)
		vAssert(ok, tag+"-result-is-boolean")
		vAssert(o.Value == want.b, tag+"-boolean-value")
	case rFloat:
		o, ok := obj.(*object.Float)
		vAssert(ok, tag+"-result-is-float")
		vAssert(o.Value == want.f || (o.Value != o.Value && want.f != want.f), tag+"-float-value")
	case rStr:
		o, ok := obj.(*object.Str)
		vAssert(ok, tag+"-result-is-string")
		vAssert(vEqStr(o.Value, want.s), tag+"-string-value")
	case rNil:
		_, ok := obj.(*object.Nil)
		vAssert(ok, tag+"-result-is-nil")
	}
}

var c01Names = []string{"a", "b", "c", "d"}

// HarnessC01Chain: {{ a ⊙ b ⊙ c [⊙ d] }} with symbolic operators (bytes) and symbolic int64 operands.
func HarnessC01Chain() {
	k := vParam("K")
	src := "{{ a"
	ops := make([]int, k)
	for i := 0; i < k; i++ {
		lx, op := symOperator("op")
		ops[i] = op
		src += " " + lx + " " + c01Names[i+1]
	}
	src += " }}"
	data := map[string]any{}
	vals := make([]rv, k+1)
	for i := 0; i <= k; i++ {
		v := vInt64(c01Names[i])
		data[c01Names[i]] = v
		vals[i] = rv{kind: rInt, i: v}
	}
	want := refChain(vals, ops)
	obj, parsed := evalLast(src, data)
	vCover("evaluated")
	checkAgainst(obj, parsed, want, "chain")
}

// HarnessC01Assign: {{ x = a ⊙ b ⊙ c }}{{ x }} — the right-hand side of an assignment is a complete expression.
func HarnessC01Assign() {
	k := vParam("K")
	src := "{{ x = a"
	ops := make([]int, k)
	for i := 0; i < k; i++ {
		lx, op := symOperator("op")
		ops[i] = op
		src += " " + lx + " " + c01Names[i+1]
	}
	src += " }}{{ x }}"
	data := map[string]any{}
	vals := make([]rv, k+1)
	for i := 0; i <= k; i++ {
		v := vInt64(c01Names[i])
		data[c01Names[i]] = v
		vals[i] = rv{kind: rInt, i: v}
	}
	want := refChain(vals, ops)
	obj, parsed := evalLast(src, data)
	vCover("evaluated")
	checkAgainst(obj, parsed, want, "assign")
}
