//go:build verif

package textwire

import (
	"github.com/textwire/textwire/v2/ast"
	"github.com/textwire/textwire/v2/ctx"
	"github.com/textwire/textwire/v2/evaluator"
	"github.com/textwire/textwire/v2/object"
)

// ---- reference semantics written from the statement of C01 ----

const (
	rInt = iota
	rBool
	rFloat
	rStr
	rErr
	rUnspec // the statement does not say (e.g. bool == bool)
	rNil
)

type rv struct {
	kind int
	i    int64
	b    bool
	f    float64
	s    string
}

var opLexemes = []string{"+ ", "- ", "* ", "/ ", "% ", "==", "!=", "< ", "> ", "<=", ">="}

const (
	opAdd = iota
	opSub
	opMul
	opDiv
	opMod
	opEq
	opNe
	opLt
	opGt
	opLe
	opGe
)

// binding power: equality < comparison < additive < multiplicative
func refPrec(op int) int {
	switch op {
	case opEq, opNe:
		return 1
	case opLt, opGt, opLe, opGe:
		return 2
	case opAdd, opSub:
		return 3
	}
	return 4
}

func refBin(op int, l, r rv) rv {
	if l.kind == rErr || l.kind == rUnspec {
		return l
	}
	if r.kind == rErr || r.kind == rUnspec {
		return r
	}
	if l.kind != r.kind {
		return rv{kind: rErr}
	}
	switch l.kind {
	case rInt:
		a, b := l.i, r.i
		switch op {
		case opAdd:
			return rv{kind: rInt, i: a + b}
		case opSub:
			return rv{kind: rInt, i: a - b}
		case opMul:
			return rv{kind: rInt, i: a * b}
		case opDiv:
			if b == 0 {
				return rv{kind: rErr}
			}
			return rv{kind: rInt, i: a / b}
		case opMod:
			if b == 0 {
				return rv{kind: rErr}
			}
			return rv{kind: rInt, i: a % b}
		case opEq:
			return rv{kind: rBool, b: a == b}
		case opNe:
			return rv{kind: rBool, b: a != b}
		case opLt:
			return rv{kind: rBool, b: a < b}
		case opGt:
			return rv{kind: rBool, b: a > b}
		case opLe:
			return rv{kind: rBool, b: a <= b}
		case opGe:
			return rv{kind: rBool, b: a >= b}
		}
	case rFloat:
		a, b := l.f, r.f
		switch op {
		case opAdd:
			return rv{kind: rFloat, f: a + b}
		case opSub:
			return rv{kind: rFloat, f: a - b}
		case opMul:
			return rv{kind: rFloat, f: a * b}
		case opDiv:
			return rv{kind: rFloat, f: a / b}
		case opMod:
			return rv{kind: rUnspec}
		case opEq:
			return rv{kind: rBool, b: a == b}
		case opNe:
			return rv{kind: rBool, b: a != b}
		case opLt:
			return rv{kind: rBool, b: a < b}
		case opGt:
			return rv{kind: rBool, b: a > b}
		case opLe:
			return rv{kind: rBool, b: a <= b}
		case opGe:
			return rv{kind: rBool, b: a >= b}
		}
	case rStr:
		switch op {
		case opAdd:
			return rv{kind: rStr, s: l.s + r.s}
		case opEq:
			return rv{kind: rBool, b: l.s == r.s}
		case opNe:
			return rv{kind: rBool, b: l.s != r.s}
		}
		return rv{kind: rUnspec}
	}
	return rv{kind: rUnspec}
}

// refChain groups v0 op0 v1 op1 v2 ... by binding power, left to right among equals.
func refChain(vals []rv, ops []int) rv {
	vs := []rv{vals[0]}
	var os []int
	reduce := func() {
		r := vs[len(vs)-1]
		l := vs[len(vs)-2]
		op := os[len(os)-1]
		vs = vs[:len(vs)-2]
		os = os[:len(os)-1]
		vs = append(vs, refBin(op, l, r))
	}
	for i, op := range ops {
		for len(os) > 0 && refPrec(os[len(os)-1]) >= refPrec(op) {
			reduce()
		}
		os = append(os, op)
		vs = append(vs, vals[i+1])
	}
	for len(os) > 0 {
		reduce()
	}
	return vs[0]
}

// symOperator returns two symbolic bytes constrained to spell one of the binary operators, and which one.
func symOperator(name string) (string, int) {
	o0, o1 := vByte(name), vByte(name)
	for k, lx := range opLexemes {
		if o0 == lx[0] && o1 == lx[1] {
			return string([]byte{o0, o1}), k
		}
	}
	vAssume(false)
	return "", 0
}

// evalLast parses src and evaluates its statements with the real evaluator, returning the last value.
func evalLast(src string, data map[string]any) (object.Object, bool) {
	prog, errs := parseStr(src)
	if len(errs) != 0 {
		return nil, false
	}
	env, envErr := object.EnvFromMap(data)
	if envErr != nil {
		return nil, false
	}
	ev := evaluator.New(ctx.NewContext("", customFunc, userConfig))
	var last object.Object
	for _, st := range prog.Statements {
		if _, isText := st.(*ast.HTMLStmt); isText {
			continue
		}
		last = ev.Eval(st, env)
		if last.Is(object.ERR_OBJ) {
			return last, true
		}
	}
	return last, true
}

// checkAgainst compares the evaluator's result object with the reference value.
func checkAgainst(obj object.Object, parsed bool, want rv, tag string) {
	switch want.kind {
	case rUnspec:
		return
	case rErr:
		vAssert(!parsed || obj == nil || obj.Is(object.ERR_OBJ), tag+"-must-be-an-error")
		return
	}
	vAssert(parsed, tag+"-must-parse")
	vAssert(obj != nil && !obj.Is(object.ERR_OBJ), tag+"-must-not-fail")
	switch want.kind {
	case rInt:
		o, ok := obj.(*object.Int)
		vAssert(ok, tag+"-result-is-integer")
		vAssert(o.Value == want.i, tag+"-integer-value")
	case rBool:
		o, ok := obj.(*object.Bool)
		vAssert(ok, tag+"-result-is-boolean")
		vAssert(o.Value == want.b, tag+"-boolean-value")
	case rFloat:
		o, ok := obj.(*object.Float)
		vAssert(ok, tag+"-result-is-float")
		vAssert(o.Value == want.f || (o.Value != o.Value && want.f != want.f), tag+"-float-value")
	case rStr:
		o, ok := obj.(*object.Str)
		vAssert(ok, tag+"-result-is-string")
		vAssert(vEqStr(o.Value, want.s), tag+"-string-value")
	case rNil:
		_, ok := obj.(*object.Nil)
		vAssert(ok, tag+"-result-is-nil")
	}
}

var c01Names = []string{"a", "b", "c", "d"}

// HarnessC01Chain: {{ a ⊙ b ⊙ c [⊙ d] }} with symbolic operators (bytes) and symbolic int64 operands.
func HarnessC01Chain() {
	k := vParam("K")
	src := "{{ a"
	ops := make([]int, k)
	for i := 0; i < k; i++ {
		lx, op := symOperator("op")
		ops[i] = op
		src += " " + lx + " " + c01Names[i+1]
	}
	src += " }}"
	data := map[string]any{}
	vals := make([]rv, k+1)
	for i := 0; i <= k; i++ {
		v := vInt64(c01Names[i])
		data[c01Names[i]] = v
		vals[i] = rv{kind: rInt, i: v}
	}
	want := refChain(vals, ops)
	obj, parsed := evalLast(src, data)
	vCover("evaluated")
	checkAgainst(obj, parsed, want, "chain")
}

// HarnessC01Assign: {{ x = a ⊙ b ⊙ c }}{{ x }} — the right-hand side of an assignment is a complete expression.
func HarnessC01Assign() {
	k := vParam("K")
	src := "{{ x = a"
	ops := make([]int, k)
	for i := 0; i < k; i++ {
		lx, op := symOperator("op")
		ops[i] = op
		src += " " + lx + " " + c01Names[i+1]
	}
	src += " }}{{ x }}"
	data := map[string]any{}
	vals := make([]rv, k+1)
	for i := 0; i <= k; i++ {
		v := vInt64(c01Names[i])
		data[c01Names[i]] = v
		vals[i] = rv{kind: rInt, i: v}
	}
	want := refChain(vals, ops)
	obj, parsed := evalLast(src, data)
	vCover("evaluated")
	checkAgainst(obj, parsed, want, "assign")
}

// ---- skeletons mixing the other constructs with binary operators ----

type c01Env struct {
	a, b, c, d int64
	t, u       bool
	x0, x1     int64
	k          int64
}

func rI(v int64) rv { return rv{kind: rInt, i: v} }
func rB(v bool) rv  { return rv{kind: rBool, b: v} }

func refAbs(v int64) int64 {
	if v < 0 {
		return -v
	}
	return v
}

var c01Skeletons = []struct {
	src string
	f   func(e c01Env) rv
}{
	{"-a + b", func(e c01Env) rv { return rI(-e.a + e.b) }},
	{"-a * b", func(e c01Env) rv { return rI(-e.a * e.b) }},
	{"a - -b", func(e c01Env) rv { return rI(e.a - -e.b) }},
	{"!t ? a : b", func(e c01Env) rv {
		if !e.t {
			return rI(e.a)
		}
		return rI(e.b)
	}},
	{"t ? a : a / (b - b)", func(e c01Env) rv { // the branch that is not taken is not evaluated
		if e.t {
			return rI(e.a)
		}
		return rv{kind: rErr}
	}},
	{"t ? nope : a", func(e c01Env) rv {
		if e.t {
			return rv{kind: rErr}
		}
		return rI(e.a)
	}},
	{"t ? a : u ? b : c", func(e c01Env) rv {
		if e.t {
			return rI(e.a)
		}
		if e.u {
			return rI(e.b)
		}
		return rI(e.c)
	}},
	{"t ? a + b : c * d", func(e c01Env) rv {
		if e.t {
			return rI(e.a + e.b)
		}
		return rI(e.c * e.d)
	}},
	{"a + b ? c : d", func(e c01Env) rv {
		if e.a+e.b != 0 {
			return rI(e.c)
		}
		return rI(e.d)
	}},
	{"a < b ? c + d : c - d", func(e c01Env) rv {
		if e.a < e.b {
			return rI(e.c + e.d)
		}
		return rI(e.c - e.d)
	}},
	{"xs[0] + b", func(e c01Env) rv { return rI(e.x0 + e.b) }},
	{"xs[1] * b + c", func(e c01Env) rv { return rI(e.x1*e.b + e.c) }},
	{"a - xs[0] * xs[1]", func(e c01Env) rv { return rI(e.a - e.x0*e.x1) }},
	{"o.k + b", func(e c01Env) rv { return rI(e.k + e.b) }},
	{"a * o.k - c", func(e c01Env) rv { return rI(e.a*e.k - e.c) }},
	{"o[\"k\"] * b", func(e c01Env) rv { return rI(e.k * e.b) }},
	{"a.abs() + b", func(e c01Env) rv {
		if e.a == -9223372036854775808 {
			return rv{kind: rUnspec}
		}
		return rI(refAbs(e.a) + e.b)
	}},
	{"-a.abs()", func(e c01Env) rv {
		// prefix binds tighter than member access: (-a).abs()
		if e.a == -9223372036854775808 {
			return rv{kind: rUnspec}
		}
		return rI(refAbs(-e.a))
	}},
	{"a++ + b", func(e c01Env) rv { return rI(e.a + 1 + e.b) }},
	{"a-- * b", func(e c01Env) rv { return rI((e.a - 1) * e.b) }},
	{"-a++", func(e c01Env) rv { return rI(-(e.a + 1)) }},
	{"t ? a : a / (b - b)", func(e c01Env) rv { // the branch that is not taken is not evaluated
		if e.t {
			return rI(e.a)
		}
		return rv{kind: rErr}
	}},
	{"t ? nope : a", func(e c01Env) rv {
		if e.t {
			return rv{kind: rErr}
		}
		return rI(e.a)
	}},
	{"t ? a : u ? b : c", func(e c01Env) rv {
		if e.t {
			return rI(e.a)
		}
		if e.u {
			return rI(e.b)
		}
		return rI(e.c)
	}},
	{"t ? 0 : u ? b : c", func(e c01Env) rv {
		if e.t {
			return rI(0)
		}
		if e.u {
			return rI(e.b)
		}
		return rI(e.c)
	}},
	{"-2++", func(e c01Env) rv { return rI(-3) }},
	{"-2--", func(e c01Env) rv { return rI(-1) }},
	{"a * -2++", func(e c01Env) rv { return rI(e.a * -3) }},
	{"-7 % 4 + a", func(e c01Env) rv { return rI(-3 + e.a) }},
	{"!true ? a : b", func(e c01Env) rv { return rI(e.b) }},
	{"a++ + a", func(e c01Env) rv { return rI(e.a + 1 + e.a) }},
	{"a-- * a--", func(e c01Env) rv { return rI((e.a - 1) * (e.a - 1)) }},
	{"xs[0]++ + xs[0]", func(e c01Env) rv { return rI(e.x0 + 1 + e.x0) }},
	{"(a + b) * c", func(e c01Env) rv { return rI((e.a + e.b) * e.c) }},
	{"a * (b + c)", func(e c01Env) rv { return rI(e.a * (e.b + e.c)) }},
	{"((a)) + (b)", func(e c01Env) rv { return rI(e.a + e.b) }},
	{"a - (b - (c - d))", func(e c01Env) rv { return rI(e.a - (e.b - (e.c - e.d))) }},
	{"a + b * c - d", func(e c01Env) rv { return rI(e.a + e.b*e.c - e.d) }},
	{"a * b + c * d", func(e c01Env) rv { return rI(e.a*e.b + e.c*e.d) }},
	{"a - b - c - d", func(e c01Env) rv { return rI(e.a - e.b - e.c - e.d) }},
	{"a + b == c + d", func(e c01Env) rv { return rB(e.a+e.b == e.c+e.d) }},
	{"a * b < c + d", func(e c01Env) rv { return rB(e.a*e.b < e.c+e.d) }},
	{"a - b >= c * d", func(e c01Env) rv { return rB(e.a-e.b >= e.c*e.d) }},
	{"!(a < b) ? c : d", func(e c01Env) rv {
		if !(e.a < e.b) {
			return rI(e.c)
		}
		return rI(e.d)
	}},
	{"a / b * c", func(e c01Env) rv {
		if e.b == 0 {
			return rv{kind: rErr}
		}
		return rI(e.a / e.b * e.c)
	}},
	{"a - b % c", func(e c01Env) rv {
		if e.c == 0 {
			return rv{kind: rErr}
		}
		return rI(e.a - e.b%e.c)
	}},
	{"a + t", func(e c01Env) rv { return rv{kind: rErr} }},
	{"a + nope", func(e c01Env) rv { return rv{kind: rErr} }},
	{"nope ? a : b", func(e c01Env) rv { return rv{kind: rErr} }},
}

// HarnessC01Skeleton: unary, postfix, ternary, index, property access, calls and parentheses mixed with binary
// operators; all integer operands are unconstrained int64, conditions are symbolic booleans.
func HarnessC01Skeleton() {
	sk := c01Skeletons[vChoice("skeleton", len(c01Skeletons))]
	e := c01Env{a: vInt64("a"), b: vInt64("b"), c: vInt64("c"), d: vInt64("d"), t: vBool("t"), u: vBool("u"),
		x0: vInt64("x0"), x1: vInt64("x1"), k: vInt64("k")}
	data := map[string]any{"a": e.a, "b": e.b, "c": e.c, "d": e.d, "t": e.t, "u": e.u,
		"xs": []any{e.x0, e.x1}, "o": map[string]any{"k": e.k}}
	want := sk.f(e)
	obj, parsed := evalLast("{{ "+sk.src+" }}", data)
	vCover("evaluated")
	checkAgainst(obj, parsed, want, "skeleton")
}

var c01Blank = []byte{' ', '\t', '\n', '\r'}

func symGap(label string) string {
	n := vChoice(label+".n", 2)
	if n == 0 {
		return ""
	}
	g := vByte(label)
	vAssume(g == ' ' || g == '\t' || g == '\n' || g == '\r')
	return string([]byte{g})
}

// HarnessC01Layout: whitespace, newlines and redundant parentheses never change the result. Every token gap holds
// the baseline spacing (nothing or one blank) except two chosen gaps, which hold a symbolic whitespace byte each.
func HarnessC01Layout() {
	e := c01Env{a: vInt64("a"), b: vInt64("b"), c: vInt64("c")}
	data := map[string]any{"a": e.a, "b": e.b, "c": e.c}
	toks := []string{"a", "+", "b", "*", "c"}
	if vChoice("parens", 2) == 1 {
		toks = []string{"(", "(", "a", ")", ")", "+", "(", "b", "*", "c", ")"}
	}
	base := []string{"", " "}[vChoice("baseline", 2)]
	g1 := vChoice("gap1", len(toks)+1)
	g2 := vChoice("gap2", len(toks)+1)
	ws := func(label string) string {
		g := vByte(label)
		vAssume(g == ' ' || g == '\t' || g == '\n' || g == '\r')
		return string([]byte{g})
	}
	src := "{{"
	for i := 0; i <= len(toks); i++ {
		switch {
		case i == g1:
			src += ws("ws1")
		case i == g2:
			src += ws("ws2") + base
		default:
			src += base
		}
		if i < len(toks) {
			src += toks[i]
		}
	}
	src += "}}"
	obj, parsed := evalLast(src, data)
	vCover("evaluated")
	checkAgainst(obj, parsed, rI(e.a+e.b*e.c), "layout")
}

// HarnessC01Float: one binary operator on float64 operands (all values incl. NaN, infinities, -0), additive chains,
// and mixed integer/float operands.
func HarnessC01Float() {
	a, b, c := vFloat64("a"), vFloat64("b"), vFloat64("c")
	data := map[string]any{"a": a, "b": b, "c": c, "i": vInt64("i")}
	rF := func(f float64) rv { return rv{kind: rFloat, f: f} }
	var src string
	var want rv
	switch vChoice("shape", 10) {
	case 8, 9:
		// a postfix operator yields a new value and leaves the variable (or element) as it was
		f := []float64{2.5, 0.5, -1.5, 4.5}[vChoice("f", 4)]
		data["f"] = f
		data["fs"] = []any{f}
		dir := vChoice("dir", 2)
		op := []string{"++", "--"}[dir]
		d := []float64{1, -1}[dir]
		if vChoice("element", 2) == 0 {
			src, want = "f"+op+" + f", rF(f+d+f)
		} else {
			src, want = "fs[0]"+op+" + fs[0]", rF(f+d+f)
		}
	case 6, 7:
		// postfix ++/-- on a float: formatting is involved in the implementation, so the operand comes from a
		// boundary set instead of being symbolic
		f := []float64{2.5, 0.5, -1.5, 0, -0.25, 1e21, 3}[vChoice("f", 7)]
		data["f"] = f
		if vChoice("dir", 2) == 0 {
			// x++ is the plain double x + 1.0, also where that sum is not the shortest decimal (0.57 + 1.0 is
			// 1.5699999999999998); x-- keeps the operand's number of decimals in the implementation, which the
			// suite pins (4.4-- is 3.4), so only exactly representable operands are used for it
			if g := vChoice("inexact", 5); g > 0 {
				f = []float64{0.57, 0.14, 0.93, -0.36}[g-1]
				data["f"] = f
			}
			src, want = "f++", rF(f+1)
		} else {
			src, want = "f--", rF(f-1)
		}
	case 0:
		lx, op := symOperator("op")
		src = "a " + lx + " b"
		want = refBin(op, rF(a), rF(b))
	case 1:
		src, want = "a + b - c", rF(a+b-c)
	case 2:
		src, want = "a - b + c", rF(a-b+c)
	case 3:
		src, want = "a - (b - c)", rF(a-(b-c))
	case 4:
		src, want = "a + i", rv{kind: rErr}
	default:
		src, want = "-a < b", rB(-a < b)
	}
	if vChoice("printed", 2) == 1 {
		// the printed form of float results from a boundary set (formatting symbolic floats is outside the engine)
		cases := []struct {
			src  string
			f    float64
			want string
		}{
			{"-f", 0, "-0.0"}, {"f * -1.5", 0, "-0.0"}, {"f + f", 0, "0.0"}, {"0.0 / f", -4, "-0.0"}, {"f + 0.5", 1.5, "2.0"},
			{"f - 5.5", 2.5, "-3.0"}, {"f / 2.0", 0.5, "0.25"}, {"f * 2.0", -0.75, "-1.5"}, {"-f + -f", 0, "-0.0"}, {"f", 1e15, "1000000000000000.0"},
			{"1.0 / f", 0, "+Inf"}, {"-1.0 / f", 0, "-Inf"}, {"f / f", 0, "NaN"}, {"f * f", 1e200, "+Inf"},
		}
		c := cases[vChoice("case", len(cases))]
		out, err := EvaluateString("{{ "+c.src+" }}", map[string]any{"f": c.f})
		vCover("evaluated")
		vAssert(err == nil && out == c.want, "float-result-is-printed-with-its-sign-and-decimals")
		return
	}
	obj, parsed := evalLast("{{ "+src+" }}", data)
	vCover("evaluated")
	checkAgainst(obj, parsed, want, "float")
}

// HarnessC01String: concatenation and (in)equality of strings with symbolic bytes; mixed types fail.
func HarnessC01String() {
	a := symBytesAny("a", vChoice("a.len", 3))
	b := symBytesAny("b", vChoice("b.len", 3))
	c := symBytesAny("c", 1)
	data := map[string]any{"a": a, "b": b, "c": c, "i": vInt64("i")}
	rS := func(s string) rv { return rv{kind: rStr, s: s} }
	var src string
	var want rv
	switch vChoice("shape", 6) {
	case 0:
		src, want = "a + b + c", rS(a+b+c)
	case 1:
		src, want = "a == b", rB(a == b)
	case 2:
		src, want = "a != b", rB(a != b)
	case 3:
		src, want = "a + b == c + a", rB(a+b == c+a)
	case 4:
		src, want = "a + i", rv{kind: rErr}
	default:
		src, want = "a + (b + c)", rS(a+(b+c))
	}
	obj, parsed := evalLast("{{ "+src+" }}", data)
	vCover("evaluated")
	checkAgainst(obj, parsed, want, "string")
}

// HarnessC01Literal: integer literals of up to three symbolic digits, and the int64 boundary literals.
func HarnessC01Literal() {
	switch vChoice("shape", 5) {
	case 0:
		n := 1 + vChoice("digits", 3)
		var want int64
		lit := make([]byte, n)
		for i := range lit {
			d := vByte("digit")
			vAssume(d >= '0' && d <= '9')
			lit[i] = d
			want = want*10 + int64(d-'0')
		}
		obj, parsed := evalLast("{{ "+string(lit)+" + a }}", map[string]any{"a": int64(0)})
		checkAgainst(obj, parsed, rI(want), "literal")
	case 1:
		obj, parsed := evalLast("{{ 9223372036854775807 }}", nil)
		checkAgainst(obj, parsed, rI(9223372036854775807), "max-literal")
	case 2:
		obj, parsed := evalLast("{{ 9223372036854775808 }}", nil)
		checkAgainst(obj, parsed, rv{kind: rErr}, "out-of-range-literal")
	case 3:
		obj, parsed := evalLast("{{ 99999999999999999999 + 1 }}", nil)
		checkAgainst(obj, parsed, rv{kind: rErr}, "out-of-range-literal")
	default:
		a := vInt64("a")
		obj, parsed := evalLast("{{ 9223372036854775807 + a }}", map[string]any{"a": a})
		checkAgainst(obj, parsed, rI(9223372036854775807+a), "wrapping-arithmetic")
	}
	vCover("evaluated")
}
