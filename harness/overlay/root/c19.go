//go:build verif

package textwire

import (
	"github.com/textwire/textwire/v2/lexer"
	"github.com/textwire/textwire/v2/token"
)

// ---- reference line table (Appendix B.5): offset -> (line, byte column) ----

type refPos struct{ line, col uint }

func refLineTable(src string) []refPos {
	out := make([]refPos, len(src)+1)
	var line, col uint
	for i := 0; i < len(src); i++ {
		out[i] = refPos{line, col}
		if src[i] == '\n' {
			line++
			col = 0
		} else {
			col++
		}
	}
	out[len(src)] = refPos{line, col}
	return out
}

func refOffset(tab []refPos, line, col uint) int {
	for j := range tab {
		if tab[j].line == line && tab[j].col == col {
			return j
		}
	}
	return -1
}

// refEscapes marks the backslashes that escape "{{" or a directive keyword (Appendix B.1/B.8), on the whole input.
func refEscapes(src string) []bool {
	esc := make([]bool, len(src))
	for i := 1; i < len(src); i++ {
		if src[i-1] != '\\' {
			continue
		}
		if src[i] == '{' && i+1 < len(src) && src[i+1] == '{' {
			esc[i-1] = true
		}
		if src[i] == '@' && refDirectiveAt(src, i) {
			esc[i-1] = true
		}
	}
	return esc
}

// refDirectiveAt: some directive keyword is a prefix of src[i:].
func refDirectiveAt(src string, i int) bool {
	for kw := range token.GetDirectives() {
		if i+len(kw) <= len(src) && src[i:i+len(kw)] == kw {
			return true
		}
	}
	return false
}

func isWS(c byte) bool { return c == ' ' || c == '\t' || c == '\n' || c == '\r' }

func symSource(n int) string {
	b := make([]byte, n)
	for i := range b {
		b[i] = vByte("b")
		vAssume(b[i] != 0)
	}
	return string(b)
}

// lexAll returns the tokens up to and including the first EOF or ILLEGAL.
func lexAll(src string) []token.Token {
	l := lexer.New(src)
	var toks []token.Token
	for i := 0; i < len(src)+3; i++ {
		t := l.NextToken()
		toks = append(toks, t)
		if t.Type == token.EOF || t.Type == token.ILLEGAL {
			return toks
		}
	}
	vFail("lexer-produces-more-tokens-than-bytes")
	return toks
}

// checkTokenGeometry asserts properties (1)-(4) of C19 for the token list of src.
func checkTokenGeometry(src string, toks []token.Token) {
	tab := refLineTable(src)
	esc := refEscapes(src)
	prevEnd := -1
	inCode := false
	for _, t := range toks {
		p := t.Pos
		if t.Type == token.EOF {
			eof := tab[len(src)]
			vAssert(p.StartLine == eof.line && p.StartCol == eof.col, "eof-start-just-past-last-byte")
			vAssert(p.EndLine == eof.line && p.EndCol == eof.col, "eof-end-just-past-last-byte")
			// the gap before EOF holds only whitespace (code) or comments; in text mode nothing may be skipped
			checkGap(src, prevEnd+1, len(src), inCode)
			continue
		}
		s := refOffset(tab, p.StartLine, p.StartCol)
		e := refOffset(tab, p.EndLine, p.EndCol)
		vAssert(s >= 0 && s < len(src), "start-is-a-byte-of-the-input")
		vAssert(e >= 0 && e < len(src), "end-is-a-byte-of-the-input")
		vAssert(s <= e, "start-not-after-end")
		vAssert(s > prevEnd, "tokens-in-source-order-without-overlap")
		checkGap(src, prevEnd+1, s, inCode)
		if t.Type == token.ILLEGAL {
			// an illegal token is one offending byte, or an unterminated string/comment up to the end of input;
			// the statement fixes only that its range lies inside the input and is ordered (asserted above)
			return
		}
		text := src[s : e+1]
		switch t.Type {
		case token.HTML:
			// own text with escape backslashes removed equals the literal
			var lit []byte
			for i := s; i <= e; i++ {
				if !esc[i] {
					lit = append(lit, src[i])
				}
			}
			vAssert(vEqStr(string(lit), t.Literal), "text-token-covers-its-bytes")
		case token.STR:
			q := src[s]
			vAssert((q == '"' || q == '\'') && src[e] == q && e > s, "string-token-spans-both-quotes")
			var lit []byte
			for i := s + 1; i < e; i++ {
				if src[i] == '\\' && i+1 < e && src[i+1] == q {
					continue
				}
				lit = append(lit, src[i])
			}
			vAssert(vEqStr(string(lit), t.Literal), "string-token-covers-its-bytes")
		default:
			vAssert(vEqStr(text, t.Literal), "token-covers-its-own-text")
		}
		prevEnd = e
		switch t.Type {
		case token.LBRACES:
			inCode = true
		case token.RBRACES:
			inCode = false
		}
		// directives with parentheses switch to code until the closing parenthesis; approximate: a gap is
		// checked as code when the next token is not text
	}
}

// checkGap: bytes src[from:to] between two tokens are whitespace or a complete comment.
func checkGap(src string, from, to int, inCode bool) {
	i := from
	for i < to {
		if isWS(src[i]) {
			i++
			continue
		}
		// comment {{-- ... --}}
		if i+4 <= to && src[i] == '{' && src[i+1] == '{' && src[i+2] == '-' && src[i+3] == '-' {
			j := i + 4
			closed := false
			for j+4 <= to+0 && j+3 < len(src) {
				if src[j] == '-' && src[j+1] == '-' && src[j+2] == '}' && src[j+3] == '}' {
					closed = true
					j += 4
					break
				}
				j++
			}
			vAssert(closed && j <= to, "gap-comment-is-complete")
			i = j
			continue
		}
		vFail("gap-between-tokens-holds-only-whitespace-or-comments")
	}
}

// HarnessC19Free: N arbitrary non-NUL bytes.
func HarnessC19Free() {
	src := symSource(vParam("N"))
	toks := lexAll(src)
	vCover("lexed")
	checkTokenGeometry(src, toks)
	vCover("checked")
}

// HarnessC19Cursor: for an arbitrary cursor (line, column) - two unconstrained unsigned integers - at most one token's
// range contains it, and if the cursor is the position of a byte covered by a token, that token contains it.
func HarnessC19Cursor() {
	prefix := []string{"", "{{1}}", "@if(x)"}[vChoice("prefix", 3)]
	src := prefix + symSource(vParam("N"))
	toks := lexAll(src)
	vCover("lexed")
	tab := refLineTable(src)
	line := uint(vUint64("line"))
	col := uint(vUint64("col"))
	hits := 0
	inside := make([]bool, len(toks))
	for i, t := range toks {
		if t.Type == token.EOF || t.Type == token.ILLEGAL {
			continue
		}
		if t.Pos.Contains(line, col) {
			inside[i] = true
			hits++
		}
	}
	vAssert(hits <= 1, "a-cursor-lies-inside-at-most-one-token")
	// which byte, if any, sits at the cursor
	for j := 0; j < len(src); j++ {
		if tab[j].line == line && tab[j].col == col {
			for i, t := range toks {
				if t.Type == token.EOF || t.Type == token.ILLEGAL {
					continue
				}
				s := refOffset(tab, t.Pos.StartLine, t.Pos.StartCol)
				e := refOffset(tab, t.Pos.EndLine, t.Pos.EndCol)
				if s >= 0 && e >= 0 && s <= j && j <= e {
					vAssert(inside[i], "the-token-covering-the-byte-under-the-cursor-contains-it")
				}
			}
		}
	}
	vCover("checked")
}

var c19Splices = [][2]string{
	{"{{--", "--}}x{{ 1 }}"},
	{"a{{--", "--}}\nb"},
	{"@if(x)a@else", "@end"},
	{"@each(v in a)@break", "@end"},
	{"@each(v in a)@continue", "x@end"},
	{"{{ \"", "\" }}y"},
	{"{{ 1 }}", "@if(x)z@end"},
	{"@component(\"c\")@slot", "(\"n\")x@end@end"},
	{"abc{{--", ""},
	{"a\n{{ 1 }}{{--", " open"},
	{"@if", "(x)y@end"},
	{"@each", "(v in a)y@end"},
	// a comment whose terminator may be preceded by more dashes, followed by text and a second comment: the first
	// "--}}" ends the comment wherever the dash run started, so X is a text token and never part of a gap
	{"{{--", "--}}X{{-- b --}}Y"},
	{"{{-- a -", "-}}X{{-- b --}}Y"},
}

// HarnessC19Splice: a hole of K symbolic bytes between concrete construct halves (inside a comment, right after a
// directive keyword that has a longer spelling, inside a string, between constructs).
func HarnessC19Splice() {
	sp := c19Splices[vChoice("splice", len(c19Splices))]
	src := sp[0] + symSource(vParam("K")) + sp[1]
	toks := lexAll(src)
	vCover("lexed")
	checkTokenGeometry(src, toks)
	vCover("checked")
}
