//go:build verif

package textwire

// HarnessC11Precedence: a built-in name wins over a custom function of the same name, for every receiver.
func HarnessC11Precedence() {
	called := false
	err := RegisterStrFunc("len", func(s string, args ...any) string {
		called = true
		return "custom"
	})
	_ = err
	err2 := RegisterStrFunc("shout", func(s string, args ...any) string { return s + "!" })
	vAssert(err2 == nil, "registering-a-new-name-succeeds")
	s := symBytesAny("s", vChoice("len", 3))
	for i := 0; i < len(s); i++ {
		vAssume(s[i] < 0x80)
	}
	out, rerr := EvaluateString("{{ s.len() }}|{{ s.shout() }}", map[string]any{"s": s})
	vCover("rendered")
	vAssert(rerr == nil, "render-succeeds")
	want := string([]byte{byte('0' + len(s))}) + "|" + s + "!"
	vAssert(vEqStr(out, want), "builtin-takes-precedence-over-custom-function")
	vAssert(!called, "custom-function-with-builtin-name-is-never-called")
}

// HarnessC11PrecedenceErr: a built-in called with arguments it rejects reports its error even when a custom function
// of the same name is registered for that receiver type; the custom function is never called.
func HarnessC11PrecedenceErr() {
	called := false
	k := vChoice("builtin", 4)
	switch k {
	case 0:
		RegisterStrFunc("truncate", func(s string, args ...any) string { called = true; return "CUSTOM" })
	case 1:
		RegisterArrFunc("slice", func(a []any, args ...any) []any { called = true; return []any{"CUSTOM"} })
	case 2:
		RegisterBoolFunc("then", func(b bool, args ...any) bool { called = true; return true })
	default:
		RegisterIntFunc("decimal", func(i int, args ...any) int { called = true; return 77 })
	}
	bad := []string{"{{ \"hello\".truncate(\"2\") }}", "{{ [1, 2, 3].slice(\"a\") }}", "{{ true.then() }}", "{{ 5.decimal(1) }}"}[k]
	good := []string{"{{ \"hello\".truncate(2) }}", "{{ [1, 2, 3].slice(1) }}", "{{ true.then(\"y\") }}", "{{ 5.decimal() }}"}[k]
	goodOut := []string{"he...", "2, 3", "y", "5.00"}[k]
	out, err := EvaluateString(bad, nil)
	vCover("rendered")
	vAssert(err != nil && out == "", "builtin-rejecting-its-arguments-is-an-error")
	out2, err2 := EvaluateString(good, nil)
	vAssert(err2 == nil && out2 == goodOut, "builtin-takes-precedence-over-custom-function")
	vAssert(!called, "custom-function-with-builtin-name-is-never-called")
}
