//go:build verif

package textwire

// HarnessC11Precedence: a built-in name wins over a custom function of the same name, for every receiver.
func HarnessC11Precedence() {
	called := false
	err := RegisterStrFunc("len", func(s string, args ...any) string {
		called = true
		return "custom"
	})
	_ = err
	err2 := RegisterStrFunc("shout", func(s string, args ...any) string { return s + "!" })
	vAssert(err2 == nil, "registering-a-new-name-succeeds")
	s := symBytesAny("s", vChoice("len", 3))
	for i := 0; i < len(s); i++ {
		vAssume(s[i] < 0x80)
	}
	out, rerr := EvaluateString("{{ s.len() }}|{{ s.shout() }}", map[string]any{"s": s})
	vCover("rendered")
	vAssert(rerr == nil, "render-succeeds")
	want := string([]byte{byte('0' + len(s))}) + "|" + s + "!"
	vAssert(vEqStr(out, want), "builtin-takes-precedence-over-custom-function")
	vAssert(!called, "custom-function-with-builtin-name-is-never-called")
}
