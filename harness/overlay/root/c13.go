//go:build verif

package textwire

// symBreak: a symbolic byte that is a newline, a carriage return or a blank.
func symBreak(label string) byte {
	b := vByte(label)
	vAssume(b == '\n' || b == '\r' || b == ' ')
	return b
}

// c13Token returns a (possibly multi-line) construct of the given kind holding two symbolic line-break bytes, and
// what it renders to (so that the faulty construct behind it is really reached).
func c13Token(kind int, label string) string {
	b1 := string([]byte{symBreak(label)})
	b2 := string([]byte{symBreak(label)})
	switch kind {
	case 0:
		return "x" + b1 + "y" + b2
	case 1:
		return "{{ \"p" + b1 + "q" + b2 + "\" }}"
	case 2:
		return "{{-- c" + b1 + "d" + b2 + " --}}"
	case 3:
		return "{{ 1 +" + b1 + " 2" + b2 + "}}"
	}
	return "@if(true" + b1 + ")z" + b2 + "@end"
}

var c13Faults = []string{
	"{{ undefinedName }}",
	"{{ 1 + \"s\" }}",
	"{{ 1.nope() }}",
	"{{ {}.k }}",
	"{{ 1 / 0 }}",
	"{{ # }}",
	"{{ 1 2 }}",
	"{{ 1 % 0 }}",
	"@each(v in 3)x@end",
	"{{ \"s\".len(",
}

func countNewlines(s string) uint {
	var n uint
	for i := 0; i < len(s); i++ {
		if s[i] == '\n' {
			n++
		}
	}
	return n
}

// HarnessC13Line: T1 T2 [T3] G F - the reported line of the single-line faulty construct F is 1 + the number of
// newlines before it, whatever multi-line tokens, CRLF line ends and blanks precede it.
func HarnessC13Line() {
	nt := vParam("T")
	src := ""
	for i := 0; i < nt; i++ {
		src += c13Token(vChoice("kind", 5), "t")
	}
	src += string([]byte{symBreak("gap")})
	fault := c13Faults[vChoice("fault", len(c13Faults))]
	want := 1 + countNewlines(src)
	src += fault
	_, err, _ := renderChecked(src, nil)
	vCover("returned")
	vAssert(err != nil, "faulty-construct-is-reported")
	vAssert(err.Line() == want, "reported-line-is-the-line-of-the-faulty-construct")
}

// c13SplitFaults: faulty constructs that span a line break; the offending token sits in the second part.
var c13SplitFaults = [][2]string{
	{"{{ 1 +", " undefinedName }}"},
	{"{{ [1, 2", " 3] }}"},
	{"{{ {a: 1", " b: 2} }}"},
	{"{{ \"s\".len(1", " 2) }}"},
	{"@if(true", " true)x@end"},
	{"{{ x = 1;", " # }}"},
	{"@each(v in [1]", " 2)x@end"},
}

// HarnessC13Split: the offending token of the faulty construct follows a symbolic line break inside the construct;
// the reported line is the line on which that token ends.
func HarnessC13Split() {
	src := c13Token(vChoice("kind", 5), "t")
	f := c13SplitFaults[vChoice("fault", len(c13SplitFaults))]
	src += f[0] + string([]byte{symBreak("inner")})
	want := 1 + countNewlines(src)
	src += f[1]
	_, err, _ := renderChecked(src, nil)
	vCover("returned")
	vAssert(err != nil, "faulty-construct-is-reported")
	vAssert(err.Line() == want, "reported-line-is-the-line-of-the-offending-token")
}
