//go:build verif

package textwire

// symBreak: a symbolic byte that is a newline, a carriage return or a blank.
func symBreak(label string) byte {
	b := vByte(label)
	vAssume(b == '\n' || b == '\r' || b == ' ')
	return b
}

// c13Token returns a (possibly multi-line) construct of the given kind holding two symbolic line-break bytes, and
// what it renders to (so that the faulty construct behind it is really reached).
func c13Token(kind int, label string) string {
	return c13TokenB(kind, label, true)
}

// c13TokenB: with secondSymbolic false the second break of the token is a plain line feed.
func c13TokenB(kind int, label string, secondSymbolic bool) string {
	b1 := string([]byte{symBreak(label)})
	b2 := "\n"
	if secondSymbolic {
		b2 = string([]byte{symBreak(label)})
	}
	switch kind {
	case 0:
		return "x" + b1 + "y" + b2
	case 1:
		return "{{ \"p" + b1 + "q" + b2 + "\" }}"
	case 2:
		return "{{-- c" + b1 + "d" + b2 + " --}}"
	case 3:
		return "{{ 1 +" + b1 + " 2" + b2 + "}}"
	case 5: // block-style comment: the break comes straight after the opener and straight before the closer
		return "{{--" + b1 + "c" + b2 + "--}}"
	case 6: // the file / text run begins with the break
		return b1 + "x" + b2 + "y"
	case 7: // the string begins and ends with a break
		return "{{ \"" + b1 + "p" + b2 + "\" }}"
	}
	return "@if(true" + b1 + ")z" + b2 + "@end"
}

const c13Kinds = 8

var c13Faults = []string{
	"{{ undefinedName }}",
	"{{ 1 + \"s\" }}",
	"{{ 1.nope() }}",
	"{{ {}.k }}",
	"{{ 1 / 0 }}",
	"{{ # }}",
	"{{ 1 2 }}",
	"{{ 1 % 0 }}",
	"@each(v in 3)x@end",
	"{{ \"s\".len(",
	"{{ {undefinedName} }}", // shorthand property: the name is the identifier that is looked up
	"{{ o = {a: 1, undefinedName}; o.a }}",
}

func countNewlines(s string) uint {
	var n uint
	for i := 0; i < len(s); i++ {
		if s[i] == '\n' {
			n++
		}
	}
	return n
}

// HarnessC13Line: T1 T2 [T3] G F - the reported line of the single-line faulty construct F is 1 + the number of
// newlines before it, whatever multi-line tokens, CRLF line ends and blanks precede it.
func HarnessC13Line() {
	c13Line(vParam("T"), true)
}

// HarnessC13Line3: three preceding tokens; to keep the path count in reach only the last token's second break is
// symbolic (the others end in a line feed), so CR LF still arises between the last token and the gap byte.
func HarnessC13Line3() {
	c13Line(3, false)
}

func c13Line(nt int, allSymbolic bool) {
	src := ""
	for i := 0; i < nt; i++ {
		src += c13TokenB(vChoice("kind", c13Kinds), "t", allSymbolic || i == nt-1)
	}
	src += string([]byte{symBreak("gap")})
	fault := c13Faults[vChoice("fault", len(c13Faults))]
	want := 1 + countNewlines(src)
	src += fault
	_, err, _ := renderChecked(src, nil)
	vCover("returned")
	vAssert(err != nil, "faulty-construct-is-reported")
	vAssert(err.Line() == want, "reported-line-is-the-line-of-the-faulty-construct")
}

// c13SplitFaults: faulty constructs that span a line break; the offending token sits in the second part.
var c13SplitFaults = [][2]string{
	{"{{ 1 +", " undefinedName }}"},
	{"{{ [1, 2", " 3] }}"},
	{"{{ {a: 1", " b: 2} }}"},
	{"{{ \"s\".len(1", " 2) }}"},
	{"@if(true", " true)x@end"},
	{"{{ x = 1;", " # }}"},
	{"@each(v in [1]", " 2)x@end"},
	{"@if(true)a@else b", "@elseif(true)c@end"},
	{"{{ 1 +", "# }}"}, // the illegal character is the first one on its line
	{"@if(", "~)x@end"}, // the offending token is the @elseif that follows an @else
}

// c13HeadFaults: constructs that span a line break whose offending token (the function name) stands before the break.
var c13HeadFaults = [][2]string{
	{"{{ 1.nope(1,", " 2) }}"},
	{"{{ \"s\".at(\"x\",", " 1) }}"},
	{"{{ [1].slice(\"a\",", " 2) }}"},
	{"{{ {~: 1,", " b: 2} }}"}, // an illegal character where a name is taken: reported on its own line
	{"@each(` in [1]", ")x@end"},
}

// HarnessC13Head: the reported line of a failing call is the line of the function name, wherever its argument
// list ends.
func HarnessC13Head() {
	src := c13Token(vChoice("kind", c13Kinds), "t")
	f := c13HeadFaults[vChoice("fault", len(c13HeadFaults))]
	src += f[0]
	want := 1 + countNewlines(src)
	src += string([]byte{symBreak("inner")}) + f[1] + string([]byte{symBreak("after")}) + "tail"
	_, err, _ := renderChecked(src, nil)
	vCover("returned")
	vAssert(err != nil, "faulty-construct-is-reported")
	vAssert(err.Line() == want, "reported-line-is-the-line-of-the-function-name")
}

// HarnessC13Split: the offending token of the faulty construct follows a symbolic line break inside the construct;
// the reported line is the line on which that token ends.
func HarnessC13Split() {
	src := c13Token(vChoice("kind", c13Kinds), "t")
	f := c13SplitFaults[vChoice("fault", len(c13SplitFaults))]
	src += f[0] + string([]byte{symBreak("inner")})
	want := 1 + countNewlines(src)
	src += f[1]
	_, err, _ := renderChecked(src, nil)
	vCover("returned")
	vAssert(err != nil, "faulty-construct-is-reported")
	vAssert(err.Line() == want, "reported-line-is-the-line-of-the-offending-token")
}

// HarnessC13Files: faults found while loading a template tree, and faults in the page itself, are reported with the
// absolute path of the file that contains the construct and the line on which it ends; a multi-line token with
// symbolic line breaks precedes the construct.
func HarnessC13Files() {
	vfsReset()
	lead := c13Token(vChoice("kind", c13Kinds), "t") + string([]byte{symBreak("gap")})
	line := 1 + countNewlines(lead)
	cwd := vfsCwd()
	dir := []string{"templates", "t%20x", "100%d"}[vChoice("dir", 3)]
	layout := "L[@reserve(\"r\")]"
	comp := "<c>{{ t }}</c>"
	page := "@use(\"~main\")@insert(\"r\")P@component(\"~card\", {t: 1})@end"
	var wantPath string
	runtime := false
	lineOnly := false
	box := false
	switch vChoice("fault", 10) {
	case 8, 9: // run-time fault in the page, inside a slot body that is passed to a component (default / named slot)
		box = true
		page = lead + "@component(\"~box\")@slot{{ undefinedName }}@end@end"
		if vChoice("named-slot", 2) == 1 {
			page = lead + "@component(\"~box\")@slot(\"n\"){{ 1 / 0 }}@end@end"
		}
		wantPath = cwd + "/" + dir + "/page.tw"
		runtime = true
	case 6: // run-time fault inside the component file: the line is that of the component file (path not asserted)
		comp = lead + "{{ undefinedName }}"
		runtime, lineOnly = true, true
	case 7: // run-time fault inside the layout file
		layout = lead + "{{ 1 / 0 }}[@reserve(\"r\")]"
		runtime, lineOnly = true, true
	case 0: // undefined insert in the page
		page = "@use(\"~main\")" + lead + "@insert(\"zz\", 1)"
		wantPath = cwd + "/" + dir + "/page.tw"
	case 1: // unknown component in the page
		page = lead + "@component(\"~nope\")"
		wantPath = cwd + "/" + dir + "/page.tw"
	case 2: // syntax fault in the layout file
		layout = lead + "{{ 1 2 }}[@reserve(\"r\")]"
		wantPath = cwd + "/" + dir + "/layouts/main.tw"
	case 3: // illegal character in the component file
		comp = lead + "{{ # }}"
		wantPath = cwd + "/" + dir + "/components/card.tw"
	case 4: // run-time fault in the page itself
		page = lead + "{{ undefinedName }}"
		wantPath = cwd + "/" + dir + "/page.tw"
		runtime = true
	default: // syntax fault in the page
		page = lead + "@if(true"
		wantPath = cwd + "/" + dir + "/page.tw"
	}
	vfsWriteFile(dir+"/layouts/main.tw", layout)
	vfsWriteFile(dir+"/components/card.tw", comp)
	if box {
		vfsWriteFile(dir+"/components/box.tw", "\n\n<@slot|@slot(\"n\")>")
	}
	vfsWriteFile(dir+"/page.tw", page)
	vfsWriteFile(dir+"/other.tw", "other page")
	tpl, err := newTemplate(dir, ".tw")
	vCover("loaded")
	if runtime {
		vAssert(err == nil && tpl != nil, "tree-with-a-run-time-fault-loads")
		if vChoice("after-another-page", 2) == 1 {
			// the Template has already rendered a different page
			o, oerr := tpl.String("other", nil)
			vAssert(oerr == nil && o == "other page", "other-page-renders")
		}
		_, ferr := tpl.String("page", nil)
		vAssert(ferr != nil, "run-time-fault-is-reported")
		vAssert(ferr.Line() == line, "reported-line-is-the-line-of-the-construct")
		if !lineOnly {
			vAssert(ferr.Filepath() == wantPath, "reported-path-is-the-absolute-path-of-the-page")
		}
		return
	}
	vAssert(err != nil && tpl == nil, "load-time-fault-is-reported")
	msg := err.Error()
	// the error text is "[Textwire ERROR in <path>:<line>]:\n<message>"
	vAssert(hasSub(msg, " in "+wantPath+":"+itoaSmall(line)+"]"), "error-names-the-file-and-line-of-the-construct")
}

func itoaSmall(n uint) string {
	if n < 10 {
		return string([]byte{byte('0' + n)})
	}
	return string([]byte{byte('0' + n/10), byte('0' + n%10)})
}
