//go:build verif

package textwire

import "strconv"

func b01(b bool) string {
	if b {
		return "1"
	}
	return "0"
}

const c03X = "<{{ loop.index }}{{ loop.iter }}{{ loop.first }}{{ loop.last }}>"
const c03Y = "({{ v }})"

func refX(i, n int) string {
	return "<" + strconv.Itoa(i) + strconv.Itoa(i+1) + b01(i == 0) + b01(i == n-1) + ">"
}

var c03Ctrl = []string{"", "@break", "@continue", "@breakIf(v == k)", "@continueIf(v == k)"}
var c03Wrap = [][2]string{{"", ""}, {"@if(t)", "@end"}, {"@if(f)x@elseif(t)", "@end"}, {"@if(t)@if(t)", "@end@end"}}

// symElems: an array of 0..maxLen one-byte strings with symbolic content.
func symElems(name string, maxLen int) []string {
	n := vChoice(name+".len", maxLen+1)
	out := make([]string, n)
	for i := range out {
		out[i] = string([]byte{vByte(name)})
	}
	return out
}

func toAny(xs []string) []any {
	out := make([]any, len(xs))
	for i, x := range xs {
		out[i] = x
	}
	return out
}

// refEach computes the expected text of @each(v in xs) with a control directive at position pos of the body.
func refEach(xs []string, ctrl, pos int, k string, hasElse bool) string {
	if len(xs) == 0 {
		if hasElse {
			return "<E>"
		}
		return ""
	}
	out := ""
	for i, v := range xs {
		fire := false
		switch ctrl {
		case 1, 2:
			fire = true
		case 3, 4:
			fire = v == k
		}
		isBreak := ctrl == 1 || ctrl == 3
		parts := []string{"[", refX(i, len(xs)), "(" + v + ")", "]"}
		// the body is "[" X Y "]" with the directive before X (pos 0), between X and Y (1) or after Y (2)
		cut := pos + 1
		if fire {
			for _, p := range parts[:cut] {
				out += p
			}
			if isBreak {
				return out
			}
			continue
		}
		for _, p := range parts {
			out += p
		}
	}
	return out
}

// HarnessC03Each: @each over an array of symbolic one-byte strings with every control directive at every
// position of the body, bare or under nested @if blocks, with and without @else.
func HarnessC03Each() {
	xs := symElems("x", vParam("L"))
	ctrl := vChoice("ctrl", len(c03Ctrl))
	pos := vChoice("pos", 3)
	wrap := c03Wrap[vChoice("wrap", len(c03Wrap))]
	hasElse := vChoice("else", 2) == 1
	k := string([]byte{vByte("k")})
	c := ""
	// the condition of @breakIf/@continueIf as a comparison, as a boolean that comes from the data (one flag per
	// element), or as a truthy / falsy number
	hit := make([]any, len(xs))
	for i, x := range xs {
		hit[i] = x == k
	}
	if ctrl != 0 {
		d := c03Ctrl[ctrl]
		if ctrl >= 3 {
			d = d[:len(d)-len("(v == k)")] + []string{"(v == k)", "(hit[loop.index])", "(v == k ? 7 : 0)"}[vChoice("cond-form", 3)]
		}
		c = wrap[0] + d + wrap[1]
	}
	parts := []string{c03X, c03Y}
	body := "["
	for i := 0; i <= 2; i++ {
		if i == pos {
			body += c
		}
		if i < 2 {
			body += parts[i]
		}
	}
	body += "]"
	src := "P@each(v in xs)" + body
	if hasElse {
		src += "@else<E>"
	}
	src += "@end S"
	want := "P" + refEach(xs, ctrl, pos, k, hasElse) + " S"
	out, err := EvaluateString(src, map[string]any{"xs": toAny(xs), "k": k, "t": true, "f": false, "hit": hit})
	vCover("rendered")
	vAssert(err == nil, "each-renders-without-error")
	vAssert(vEqStr(out, want), "each-iterates-in-order-with-loop-metadata-and-control-directives")
}

// HarnessC03For: @for(i = s; i < e; i++) / (i = s; i > e; i--) with bounds from a small range and @else.
func HarnessC03For() {
	s := vChoice("s", 5) - 1
	e := vChoice("e", 5) - 1
	up := vChoice("dir", 2) == 0
	ctrl := vChoice("ctrl", 3) // none, @breakIf(i == k), @continueIf(i == k)
	kk := vChoice("k", 5) - 1
	hasElse := vChoice("else", 2) == 1
	head := "@for(i = " + strconv.Itoa(s) + "; i < " + strconv.Itoa(e) + "; i++)"
	if !up {
		head = "@for(i = " + strconv.Itoa(s) + "; i > " + strconv.Itoa(e) + "; i--)"
	}
	c := []string{"", "@breakIf(i == " + strconv.Itoa(kk) + ")", "@continueIf(i == " + strconv.Itoa(kk) + ")"}[ctrl]
	src := head + "[{{ i }}" + c + "]"
	if hasElse {
		src += "@else<E>"
	}
	src += "@end"
	want := ""
	ran := false
	for i := s; (up && i < e) || (!up && i > e); {
		ran = true
		want += "[" + strconv.Itoa(i)
		if ctrl == 1 && i == kk {
			break
		}
		if !(ctrl == 2 && i == kk) {
			want += "]"
		}
		if up {
			i++
		} else {
			i--
		}
	}
	if !ran && hasElse {
		want = "<E>"
	}
	out, err := EvaluateString(src, nil)
	vCover("rendered")
	vAssert(err == nil, "for-renders-without-error")
	vAssert(out == want, "for-runs-while-condition-holds-and-else-when-false-at-entry")
}

// HarnessC03Nest: nested loops see their own loop object, the outer one is restored; @break inside the @else body
// of an inner loop acts on the outer loop; iterating a non-array is an error.
func HarnessC03Nest() {
	switch vChoice("shape", 4) {
	case 3:
		// a control directive inside the @else body of an inner loop (empty @each, or @for false at entry) acts on
		// the surrounding loop
		xs := symElems("x", 3)
		k := string([]byte{vByte("k")})
		ctrl := 1 + vChoice("ctrl", 4)
		inner := []string{"@each(w in [])q@else", "@for(i = 0; i < 0; i++)q@else", "@each(w in [])q@else@if(t)", "@for(i = 1; i < 0; i++)q@else@if(t)"}[vChoice("inner", 4)]
		closing := "@end"
		if len(inner) > 22 && inner[len(inner)-6:] == "@if(t)" {
			closing = "@end@end"
		}
		c := []string{"", "@break", "@continue", "@breakIf(v == k)", "@continueIf(v == k)"}[ctrl]
		src := "@each(v in xs)({{ v }})" + inner + c + closing + "-@end"
		want := ""
		for _, v := range xs {
			want += "(" + v + ")"
			fire := ctrl <= 2 || v == k
			if fire && (ctrl == 1 || ctrl == 3) {
				break
			}
			if fire {
				continue
			}
			want += "-"
		}
		out, err := EvaluateString(src, map[string]any{"xs": toAny(xs), "k": k, "t": true})
		vCover("else-control")
		vAssert(err == nil, "else-control-renders")
		vAssert(vEqStr(out, want), "control-directive-in-an-inner-else-body-acts-on-the-surrounding-loop")
	case 0:
		xs := symElems("x", 2)
		ys := symElems("y", 2)
		src := "@each(a in xs){{ loop.index }}{@each(b in ys){{ loop.index }}{{ a }}{{ b }}{{ loop.last }}@end}{{ loop.index }}{{ loop.last }};@end"
		want := ""
		for i, a := range xs {
			want += strconv.Itoa(i) + "{"
			for j, b := range ys {
				want += strconv.Itoa(j) + a + b + b01(j == len(ys)-1)
			}
			want += "}" + strconv.Itoa(i) + b01(i == len(xs)-1) + ";"
		}
		out, err := EvaluateString(src, map[string]any{"xs": toAny(xs), "ys": toAny(ys)})
		vCover("nested")
		vAssert(err == nil, "nested-loops-render")
		vAssert(vEqStr(out, want), "each-loop-sees-its-own-loop-object-and-outer-is-restored")
	case 1:
		out, err := EvaluateString("@each(o in [1, 2])a@each(v in [])x@else@break@end b@end", nil)
		vCover("else-break")
		vAssert(err == nil, "else-break-renders")
		vAssert(out == "a", "break-in-else-body-acts-on-the-surrounding-loop")
	default:
		var v any
		switch vChoice("kind", 5) {
		case 0:
			v = vInt64("n")
		case 1:
			v = string([]byte{vByte("s")})
		case 2:
			v = vBool("b")
		case 3:
			v = nil
		default:
			v = map[string]any{"k": 1}
		}
		out, err := EvaluateString("@each(v in a)x@end", map[string]any{"a": v})
		vCover("non-array")
		vAssert(err != nil && out == "", "iterating-a-non-array-is-an-error")
	}
}

// HarnessC03ForSym: the same loops with symbolic bounds s, e and trigger k supplied as data (each in [-2, 3]);
// the body does not print the counter, so the solver ranges over all bound combinations.
func HarnessC03ForSym() {
	s := int64(vInt("s", -2, 3))
	e := int64(vInt("e", -2, 3))
	k := int64(vInt("k", -2, 3))
	up := vChoice("dir", 2) == 0
	ctrl := vChoice("ctrl", 5)
	hasElse := vChoice("else", 2) == 1
	head := "@for(i = s; i < e; i++)"
	if !up {
		head = "@for(i = s; i > e; i--)"
	}
	c := []string{"", "@breakIf(i == k)", "@continueIf(i == k)", "@breakIf(i != k)", "@continueIf(i != k)"}[ctrl]
	early := vChoice("ctrl-first", 2) == 1 // the directive comes before anything the pass prints
	body, head1 := "[x"+c+"]", "[x"
	if early {
		body, head1 = c+"[x]", ""
	}
	src := head + body
	if hasElse {
		src += "@else<E>"
	}
	src += "@end"
	want := ""
	ran := false
	for i := s; (up && i < e) || (!up && i > e); {
		ran = true
		want += head1
		fire := (ctrl == 1 || ctrl == 2) && i == k || (ctrl == 3 || ctrl == 4) && i != k
		if fire && (ctrl == 1 || ctrl == 3) {
			break
		}
		if !fire {
			if early {
				want += "[x]"
			} else {
				want += "]"
			}
		}
		if up {
			i++
		} else {
			i--
		}
	}
	if !ran && hasElse {
		want = "<E>"
	}
	out, err := EvaluateString(src, map[string]any{"s": s, "e": e, "k": k})
	vCover("rendered")
	vAssert(err == nil, "for-renders-without-error")
	vAssert(out == want, "for-runs-while-condition-holds-and-else-when-false-at-entry")
}

// HarnessC03Empty: loops whose body and/or @else body is empty.
func HarnessC03Empty() {
	n := vChoice("len", 3)
	body := []string{"", "<B>"}[vChoice("body", 2)]
	hasElse := vChoice("else", 2) == 1
	elseBody := []string{"", "<E>"}[vChoice("else-body", 2)]
	var head string
	data := map[string]any{"n": n}
	loopKind := vChoice("loop", 4)
	if loopKind == 2 || loopKind == 3 {
		// an array that reaches the loop as a never-allocated Go slice (in the data map / in a struct field)
		vAssume(n == 0)
		if loopKind == 2 {
			data["xs"] = []int(nil)
			head = "@each(v in xs)"
		} else {
			data["u"] = struct{ Tags []string }{}
			head = "@each(v in u.tags)"
		}
	} else if loopKind == 0 {
		xs := make([]any, n)
		for i := range xs {
			xs[i] = i
		}
		data["xs"] = xs
		head = "@each(v in xs)"
	} else {
		head = "@for(i = 0; i < n; i++)"
	}
	src := "P:" + head + body
	if hasElse {
		src += "@else" + elseBody
	}
	src += "@end:S"
	want := "P:"
	for i := 0; i < n; i++ {
		want += body
	}
	if n == 0 && hasElse {
		want += elseBody
	}
	want += ":S"
	out, err := EvaluateString(src, data)
	vCover("rendered")
	vAssert(err == nil, "loop-with-empty-bodies-renders-without-error")
	vAssert(out == want, "body-once-per-pass-else-only-when-no-pass")
}

// HarnessC03Clauses: @for loops with an absent post or condition clause (the body advances the counter, or a
// @breakIf ends the loop), with and without @else; nested loops that reuse the name of the loop around them.
func HarnessC03Clauses() {
	n := vInt64("n")
	vAssume(n >= 0 && n <= 3)
	hasElse := vChoice("else", 2) == 1
	els := ""
	if hasElse {
		els = "@else<E>"
	}
	var src, want string
	switch vChoice("shape", 8) {
	case 5: // a control directive that fires in an inner @each acts on the inner loop only
		src = "@each(v in [1, 2, 3])@each(w in [7, 8, 9])@breakIf(w == 8){{ w }}@end|{{ v }};@end"
		want = "7|1;7|2;7|3;"
	case 6:
		src = "@each(v in [1, 2])@each(w in [7, 8, 9])@continueIf(w == 8){{ w }}@end|{{ v }};@end"
		want = "79|1;79|2;"
	case 7:
		src = "@for(i = 0; i < n; i++)@each(w in [7, 8])@if(w == 8)@break@end{{ w }}@end|{{ i }};@end"
		for i := int64(0); i < n; i++ {
			want += "7|" + string([]byte{byte('0' + i)}) + ";"
		}
	case 0: // no post clause: the body advances the counter
		src = "@for(i = 0; i < n; ){{ i = i + 1 }}[{{ i }}]" + els + "@end"
		for i := int64(1); i <= n; i++ {
			want += "[" + string([]byte{byte('0' + i)}) + "]"
		}
		if n == 0 && hasElse {
			want = "<E>"
		}
	case 1: // no condition: it counts as true, so the @else body is never rendered
		src = "@for(i = 0; ; i++)@breakIf(i == n)[{{ i }}]" + els + "@end"
		for i := int64(0); i < n; i++ {
			want += "[" + string([]byte{byte('0' + i)}) + "]"
		}
	case 2: // no post clause, a pass that prints nothing before @continueIf
		src = "@for(i = 0; i < n; ){{ i = i + 1 }}@continueIf(i == 2)[{{ i }}]" + els + "@end"
		for i := int64(1); i <= n; i++ {
			if i != 2 {
				want += "[" + string([]byte{byte('0' + i)}) + "]"
			}
		}
		if n == 0 && hasElse {
			want = "<E>"
		}
	case 3: // an inner @each reuses the outer loop's variable name
		src = "@each(v in [1, 2])<@each(v in [7, 8]){{ v }}@end|{{ v }}:{{ loop.index }}>@end"
		want = "<78|1:0><78|2:1>"
	default: // an inner @for reuses the outer @for's counter name
		src = "@for(i = 0; i < n; i++)[@for(i = 5; i < 7; i++){{ i }}@end|{{ i }}]@end"
		for i := int64(0); i < n; i++ {
			want += "[56|" + string([]byte{byte('0' + i)}) + "]"
		}
	}
	out, err := EvaluateString(src, map[string]any{"n": n})
	vCover("rendered")
	vAssert(err == nil, "loop-renders-without-error")
	vAssert(out == want, "passes-and-else-body-as-the-statement-says")
}
