//go:build verif

package textwire

import (
	"io/fs"
	"time"
)

// vfsFileInfo and vfsErr are the values the engine's virtual file system hands to interpreted code
// (os.FileInfo for filepath.Walk callbacks; the Err of *fs.PathError). They are unused in native replays.
type vfsFileInfo struct {
	name string
	dir  bool
	link bool // a symbolic link (Walk uses Lstat, so links are reported as links)
}

func (f vfsFileInfo) Name() string { return f.name }
func (f vfsFileInfo) Size() int64  { return 0 }
func (f vfsFileInfo) Mode() fs.FileMode {
	if f.dir {
		return fs.ModeDir | 0o755
	}
	if f.link {
		return fs.ModeSymlink | 0o777
	}
	return 0o644
}
func (f vfsFileInfo) ModTime() time.Time { return time.Time{} }
func (f vfsFileInfo) IsDir() bool        { return f.dir }
func (f vfsFileInfo) Sys() any           { return nil }

type vfsErr struct {
	msg      string
	notExist bool
}

func (e vfsErr) Error() string { return e.msg }
func (e vfsErr) Is(target error) bool {
	return e.notExist && target == fs.ErrNotExist
}
