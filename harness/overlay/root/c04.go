//go:build verif

package textwire

// ---- reference scope model written from the statement of C04 ----

type c04Binding struct {
	name byte
	kind int // index into c04Lits
	text string
}

type c04Scope struct{ b []c04Binding }

type c04Model struct {
	scopes []*c04Scope
	out    string
	failed bool
}

var c04Lits = []struct{ src, text string }{
	{"7", "7"}, {"\"s\"", "s"}, {"nil", ""}, {"[9]", "9"}, {"2.5", "2.5"}, {"true", "1"},
}

func (m *c04Model) lookup(n byte) (*c04Binding, bool) {
	for i := len(m.scopes) - 1; i >= 0; i-- {
		s := m.scopes[i]
		for j := len(s.b) - 1; j >= 0; j-- {
			if s.b[j].name == n {
				return &s.b[j], true
			}
		}
	}
	return nil, false
}

// bind assigns in the innermost scope; a visible binding of another type makes the render fail.
func (m *c04Model) bind(n byte, kind int, text string) {
	if m.failed {
		return
	}
	if old, ok := m.lookup(n); ok && old.kind != kind {
		m.failed = true
		return
	}
	cur := m.scopes[len(m.scopes)-1]
	for j := range cur.b {
		if cur.b[j].name == n {
			cur.b[j].kind, cur.b[j].text = kind, text
			return
		}
	}
	cur.b = append(cur.b, c04Binding{n, kind, text})
}

func (m *c04Model) read(n byte) {
	if m.failed {
		return
	}
	b, ok := m.lookup(n)
	if !ok {
		m.failed = true
		return
	}
	m.out += b.text
}

func (m *c04Model) push() { m.scopes = append(m.scopes, &c04Scope{}) }
func (m *c04Model) pop()  { m.scopes = m.scopes[:len(m.scopes)-1] }

// symName: one symbolic byte constrained to 'a', 'b' or 'c'.
func symName(label string) byte {
	n := vByte(label)
	if vParam("NAMES") >= 3 {
		vAssume(n == 'a' || n == 'b' || n == 'c')
	} else {
		vAssume(n == 'a' || n == 'b')
	}
	return n
}

// c04Stmt emits one statement (assignment of a literal of symbolic kind, or a read) and applies it to the model.
func c04Stmt(m *c04Model, label string) string {
	n := symName(label)
	name := string([]byte{n})
	if vChoice(label+".op", 2) == 0 {
		k := vChoice(label+".lit", vParam("LITS"))
		m.bind(n, k, c04Lits[k].text)
		return "{{ " + name + " = " + c04Lits[k].src + " }}"
	}
	m.read(n)
	return "{{ " + name + " }}"
}

// HarnessC04Scopes: S1 SCOPE(S2 S3) S4 with symbolic variable names, literal kinds and data pre-bindings.
func HarnessC04Scopes() {
	m := &c04Model{}
	m.push()
	data := map[string]any{}
	// data pre-binds a symbolic subset of {a, b}
	for _, n := range []byte{'a', 'b'}[:vParam("DATA")] {
		switch vChoice("data."+string([]byte{n}), 4) {
		case 3:
			data[string([]byte{n})] = nil
			m.bind(n, 2, "")
		case 1:
			data[string([]byte{n})] = 7
			m.bind(n, 0, "7")
		case 2:
			data[string([]byte{n})] = "s"
			m.bind(n, 1, "s")
		}
	}
	src := c04Stmt(m, "s1")
	scope := vChoice("scope", 8)
	switch scope {
	case 6: // the @else block of a loop that makes no pass
		src += "@each(z in [])q@else"
		m.push()
	case 7:
		src += "@for(z = 0; z < 0; z++)q@else"
		m.push()
	case 5:
		src += "@if(false)q@elseif(true)"
		m.push()
	case 0:
		src += "@if(true)"
		m.push()
	case 1:
		src += "@if(false)q@else"
		m.push()
	case 2:
		v := symName("loopvar")
		src += "@each(" + string([]byte{v}) + " in [5])"
		m.push()
		m.bind(v, 0, "5")
	case 3:
		v := symName("loopvar")
		nm := string([]byte{v})
		src += "@for(" + nm + " = 0; " + nm + " < 1; " + nm + "++)"
		m.push()
		m.bind(v, 0, "0")
	case 4:
		src += "@if(true)@if(true)"
		m.push()
		m.push()
	}
	src += c04Stmt(m, "s2")
	src += c04Stmt(m, "s3")
	if scope == 3 && !m.failed {
		// the post clause re-binds the counter (to 1) in the loop scope after the pass
	}
	switch scope {
	case 4:
		src += "@end@end"
		m.pop()
		m.pop()
	default:
		src += "@end"
		m.pop()
	}
	src += c04Stmt(m, "s4")
	out, err := EvaluateString(src, data)
	vCover("rendered")
	if m.failed {
		vAssert(err != nil && out == "", "undefined-name-or-retyping-fails-the-render")
	} else {
		vAssert(err == nil, "well-scoped-program-renders")
		vAssert(vEqStr(out, m.out), "reads-see-the-innermost-visible-binding-and-nested-assignments-do-not-leak")
	}
}

// HarnessC04LoopVar: a loop variable whose name is already visible (assigned earlier or supplied as data) must get
// values of that type in every pass; the first element of another type fails the render.
func HarnessC04LoopVar() {
	k := vChoice("outer", 3) // 7, "s", 2.5 - kinds 0, 1, 4
	kinds := []int{0, 1, 4}
	outer := kinds[k]
	e1 := kinds[vChoice("e1", 3)]
	e2 := kinds[vChoice("e2", 3)]
	var data map[string]any
	src := ""
	if vChoice("outer-from-data", 2) == 1 {
		data = map[string]any{"x": []any{7, "s", 2.5}[k]}
	} else {
		src = "{{ x = " + c04Lits[outer].src + " }}"
	}
	src += "@each(x in [" + c04Lits[e1].src + ", " + c04Lits[e2].src + "])<{{ x }}>@end|{{ x }}"
	out, err := EvaluateString(src, data)
	vCover("rendered")
	if e1 != outer || e2 != outer {
		vAssert(err != nil && out == "", "loop-variable-of-another-type-fails-the-render")
		return
	}
	vAssert(err == nil, "well-typed-loop-renders")
	vAssert(out == "<"+c04Lits[e1].text+"><"+c04Lits[e2].text+">|"+c04Lits[outer].text, "loop-variable-vanishes-after-the-loop")
}

// HarnessC04Loop: the name loop can never be assigned or supplied as data; it is readable inside loops only.
func HarnessC04Loop() {
	switch vChoice("case", 8) {
	case 4: // inside a loop the name holds an object: an object value must be refused as well
		out, err := EvaluateString("@each(v in [1]){{ loop = {index: 9} }}{{ loop.index }}@end", nil)
		vAssert(err != nil && out == "", "loop-cannot-be-assigned-inside-a-loop")
	case 5:
		out, err := EvaluateString("@each(v in [1]){{ loop = loop }}@end", nil)
		vAssert(err != nil && out == "", "loop-cannot-be-assigned-inside-a-loop")
	case 6:
		out, err := EvaluateString("@each(v in [1])@each(loop in [{a: 1}])x@end@end", nil)
		vAssert(err != nil && out == "", "loop-cannot-be-a-loop-variable")
	case 7:
		out, err := EvaluateString("@each(v in [1])@for(loop = {index: 3}; false; )x@end@end", nil)
		vAssert(err != nil && out == "", "loop-cannot-be-a-loop-variable")
	case 0:
		k := vChoice("lit", len(c04Lits))
		out, err := EvaluateString("{{ loop = "+c04Lits[k].src+" }}", nil)
		vAssert(err != nil && out == "", "loop-cannot-be-assigned")
	case 1:
		out, err := EvaluateString("x", map[string]any{"loop": vInt64("v")})
		vAssert(err != nil && out == "", "loop-cannot-be-supplied-as-data")
	case 2:
		out, err := EvaluateString("@each(v in [1]){{ loop = 1 }}@end", nil)
		vAssert(err != nil && out == "", "loop-cannot-be-assigned-inside-a-loop")
	default:
		out, err := EvaluateString("@each(loop in [1])x@end", nil)
		vAssert(err != nil && out == "", "loop-cannot-be-a-loop-variable")
	}
	vCover("checked")
}


// HarnessC04Component: what a component file assigns, and the names of its arguments, vanish when the use ends,
// whether or not the use passes arguments; the page's own variables and the data are untouched.
func HarnessC04Component() {
	vfsReset()
	vfsWriteFile("templates/components/c.tw", "{{ t = \"C\" }}{{ n = 1 }}<{{ t }}{{ n }}>")
	use := []string{"@component(\"~c\")", "@component(\"~c\", {k: 1})", "@each(v in [1])@component(\"~c\")@end", "@if(true)@component(\"~c\")@end"}[vChoice("use", 4)]
	var page, want string
	var data map[string]any
	mustFail := false
	switch vChoice("after", 7) {
	case 0: // the page's own variable of the same name
		page, want = "{{ t = \"P\" }}"+use+"|{{ t }}", "<C1>|P"
	case 1: // a data variable of the same name
		page, want, data = use+"|{{ t }}", "<C1>|D", map[string]any{"t": "D"}
	case 2: // a name the component introduced is not visible afterwards
		page, mustFail = use+"|{{ n }}", true
	case 3: // ... so the page may bind it with another type
		page, want = use+"{{ n = \"s\" }}|{{ n }}", "<C1>|s"
	case 4: // an argument name is not visible afterwards either
		page, mustFail = "@component(\"~c\", {k: 1})|{{ k }}", true
	case 5: // an argument value is evaluated where the use stands: it sees the page's a, not the earlier argument a
		vfsWriteFile("templates/components/ab.tw", "{{ a }}-{{ b }}")
		page, want = "{{ a = 5 }}@component(\"~ab\", {a: 1, b: a})", "1-5"
	default: // ... and it fails when the page has no such name
		vfsWriteFile("templates/components/ab.tw", "{{ a }}-{{ b }}")
		page, mustFail = "@component(\"~ab\", {a: 1, b: a})", true
	}
	vfsWriteFile("templates/page.tw", page)
	tpl, err := newTemplate("templates", ".tw")
	vCover("loaded")
	vAssert(err == nil && tpl != nil, "tree-loads")
	out, ferr := tpl.String("page", data)
	if mustFail {
		vAssert(ferr != nil && out == "", "name-bound-inside-the-component-is-gone-after-the-use")
		return
	}
	vAssert(ferr == nil, "page-renders")
	vAssert(out == want, "component-assignments-do-not-leak-into-the-page")
}


// HarnessC04Alias: a value copied into a nested block and changed there (postfix operators, append, re-assignment)
// leaves what the enclosing block sees unchanged.
func HarnessC04Alias() {
	var src, want string
	switch vChoice("shape", 7) {
	case 0:
		src, want = "{{ x = 2.5 }}@if(true){{ y = x }}{{ y = y-- }}{{ y }}@end|{{ x }}", "1.5|2.5"
	case 1:
		src, want = "{{ x = 2.5 }}@for(j = x; j > 0.0; j--)<{{ j }}>@end|{{ x }}", "<2.5><1.5><0.5>|2.5"
	case 2:
		src, want = "{{ x = 2.5 }}@each(v in [1])@if(true){{ y = x }}{{ y = y++ }}{{ y }}@end@end|{{ x }}", "3.5|2.5"
	case 3:
		src, want = "{{ n = 5 }}@if(true){{ m = n; m = m-- }}{{ m }}@end|{{ n }}", "4|5"
	case 4:
		src, want = "{{ a = [1] }}@if(true){{ b = a; b = b.append(2) }}{{ b }}@end|{{ a }}", "1, 2|1"
	case 5:
		src, want = "{{ o = {k: 1.5} }}@if(true){{ p = o.k; p = p-- }}{{ p }}@end|{{ o.k }}", "0.5|1.5"
	default:
		src, want = "@each(f in fs)@if(true){{ g = f; g = g-- }}@end{{ f }},@end|{{ fs }}", "2.5,0.5,|2.5, 0.5"
	}
	out, err := EvaluateString(src, map[string]any{"fs": []any{2.5, 0.5}})
	vCover("rendered")
	vAssert(err == nil, "well-scoped-program-renders")
	vAssert(out == want, "reads-see-the-innermost-visible-binding-and-nested-assignments-do-not-leak")
}
