//go:build verif

package textwire

// c14Outcome renders to a comparable pair (text, error text).
func c14String(src string, data map[string]any) (string, string) {
	out, err := EvaluateString(src, data)
	if err != nil {
		return "", err.Error()
	}
	return out, ""
}

var c14Programs = []string{
	"{{ o }}",
	"@dump(o)",
	"{{ [o, o] }}",
	"{{ {b: x, a: y, c: \"z\"} }}",
	"@dump({b: x, a: {d: 1, c: 2}})",
	"{{ {a: u1, b: u2} }}",
	"{{ {a: u1, b: 1 / 0, c: u3} }}",
	"@each(v in [o]){{ v }}@end",
	"{{ o.a }}{{ o.b }}",
	"{{ o.str() }}",
	"{{ {id: x, ID: y, Id: \"z\"} }}",
	"{{ o.iD }}{{ o[\"Id\"] }}",
	"{{ {url: x, URL: y, uRL: 1}[\"Url\"] }}",
	"@dump({id: 1, ID: 2, iD: 3})",
}

// HarnessC14String: the same template with the same data gives byte-identical output or the same error under every
// iteration order of every map range (the engine explores all orders; natively the render is repeated).
func HarnessC14String() {
	prog := vChoice("program", len(c14Programs))
	src := c14Programs[prog]
	tag := "-program-" + string([]byte{byte('a' + prog)})
	x := string([]byte{vByte("x")})
	y := string([]byte{vByte("y")})
	if prog == 1 || prog == 4 {
		x, y = "p<", "q\"" // @dump quotes strings (%q): formatting symbolic bytes has no concrete length
	}
	o := map[string]any{"b": x, "a": y}
	switch vChoice("keys", 3) {
	case 1:
		o["c"] = map[string]any{"k": x, "j": y}
	case 2: // names that differ only in letter case
		o = map[string]any{"id": x, "ID": y, "n": "z"}
	}
	data := map[string]any{"o": o, "x": x, "y": y}
	switch vChoice("bad-data", 3) {
	case 1:
		// two entries that cannot be bound: which one is reported must not depend on map order
		data = map[string]any{"loop": 1, "ch": make(chan int), "x": x}
	case 2:
		// a nested map holding several unsupported values of different types
		data = map[string]any{"o": map[string]any{"f": func() {}, "g": func(int) string { return "" }, "c": make(chan int)}, "x": x, "y": y}
	}
	vMapOrder("insertion")
	out0, err0 := c14String(src, data)
	switch vChoice("earlier-failing-render", 3) {
	case 1:
		// a render of the same process that fails in the second pass of a loop, after the first pass produced text
		_, ferr := EvaluateString("@each(v in [1, 0])<{{ 6 / v }}>@end", nil)
		vAssert(ferr != nil, "faulty-template-fails")
	case 2:
		// a file evaluation of the same process that fails
		vfsReset()
		vfsWriteFile("faulty.txt", "a\n{{ 1 / 0 }}")
		_, ferr := EvaluateFile(vfsCwd()+"/faulty.txt", nil)
		vAssert(ferr != nil, "faulty-file-fails")
	}
	out1, err1 := c14String(src, data)
	vAssert(vEqStr(err0, err1) && vEqStr(out0, out1), "same-result-after-an-unrelated-failing-call"+tag)
	reps := 1
	if vNative() {
		reps = 300
	}
	vMapOrder("all")
	for i := 0; i < reps; i++ {
		out2, err2 := c14String(src, data)
		vAssert(vEqStr(err1, err2), "same-error-under-every-map-order"+tag)
		vAssert(vEqStr(out1, out2), "same-output-under-every-map-order"+tag)
	}
	vMapOrder("insertion")
	vCover("compared")
}

// c14Tree loads a template tree and renders page; returns text and error text (paths made relative to the cwd).
func c14Tree(files [][2]string) (string, string) {
	vfsReset()
	for _, f := range files {
		vfsWriteFile(f[0], f[1])
	}
	tpl, err := newTemplate("templates", ".tw")
	if err != nil {
		return "", err.Error()
	}
	out, ferr := tpl.String("page", map[string]any{"x": "X"})
	if ferr != nil {
		return "", ferr.String()
	}
	return out, ""
}

var c14Trees = [][][2]string{
	{ // several undefined inserts
		{"templates/layouts/main.tw", "L[@reserve(\"r\")]"},
		{"templates/page.tw", "@use(\"~main\")@insert(\"x\", 1)@insert(\"y\", 2)@insert(\"z\", 3)"},
	},
	{ // several duplicate slots
		{"templates/components/c.tw", "[@slot(\"a\")|@slot(\"b\")]"},
		{"templates/page.tw", "@component(\"~c\")@slot(\"a\")1@end@slot(\"a\")2@end@slot(\"b\")3@end@slot(\"b\")4@end@end"},
	},
	{ // two syntactically broken files
		{"templates/one.tw", "{{ 1 + }}"},
		{"templates/two.tw", "{{ # }}"},
		{"templates/page.tw", "ok"},
	},
	{ // component arguments with several failing entries
		{"templates/components/c.tw", "{{ a }}{{ b }}"},
		{"templates/page.tw", "@component(\"~c\", {a: u1, b: u2, c: u3})"},
	},
	{ // component arguments that clash in type with page variables: which one is reported must not vary
		{"templates/components/c.tw", "{{ a }}{{ b }}"},
		{"templates/page.tw", "{{ a = 1 }}{{ b = 2 }}{{ c = 3 }}@component(\"~c\", {c: \"z\", a: \"x\", b: \"y\"})"},
	},
	{ // a healthy tree: layout + component + object printing
		{"templates/layouts/main.tw", "L[@reserve(\"r\")|@reserve(\"s\")]"},
		{"templates/components/c.tw", "<{{ a }}{{ b }}>"},
		{"templates/page.tw", "@use(\"~main\")@insert(\"r\"){{ {k: x, j: 2} }}@end@insert(\"s\")@component(\"~c\", {b: 1, a: x})@end"},
	},
}

// HarnessC14Tree: loading and rendering template trees with several simultaneous faults is deterministic.
func HarnessC14Tree() {
	tree := vChoice("tree", len(c14Trees))
	files := c14Trees[tree]
	tag := "-tree-" + string([]byte{byte('0' + tree)})
	vMapOrder("insertion")
	out1, err1 := c14Tree(files)
	reps := 1
	if vNative() {
		reps = 200
	}
	vMapOrder("all")
	for i := 0; i < reps; i++ {
		out2, err2 := c14Tree(files)
		vAssert(err1 == err2, "same-error-under-every-map-order"+tag)
		vAssert(out1 == out2, "same-output-under-every-map-order"+tag)
	}
	vMapOrder("insertion")
	vCover("compared")
}
