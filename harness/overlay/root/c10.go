//go:build verif

package textwire

// refEscapeLiteral: the escaping the statement of C10 describes, byte by byte.
func refEscapeLiteral(t string) string {
	out := make([]byte, 0, len(t)*5)
	for i := 0; i < len(t); i++ {
		switch t[i] {
		case '<':
			out = append(out, "&lt;"...)
		case '>':
			out = append(out, "&gt;"...)
		case '&':
			out = append(out, "&amp;"...)
		default:
			out = append(out, t[i])
		}
	}
	return string(out)
}

// symLiteral returns the source body of a string literal of k symbolic bytes for the quote q, and its text.
func symLiteral(k int, q byte) (body, text string) {
	b := make([]byte, k)
	for i := range b {
		b[i] = vByte("lit")
		vAssume(b[i] != 0)
		if b[i] == q {
			vAssume(i > 0 && b[i-1] == '\\')
		}
	}
	if k > 0 {
		vAssume(b[k-1] != '\\')
	}
	t := make([]byte, 0, k)
	for i := 0; i < k; i++ {
		if b[i] == '\\' && i+1 < k && b[i+1] == q {
			continue
		}
		t = append(t, b[i])
	}
	return string(b), string(t)
}

var c10Contexts = []struct {
	pre, post string
	prefix    string // what the context adds in front of the literal's text
}{
	{"{{ ", " }}", ""},
	{"{{ \"x\" + ", " }}", "x"},
	{"{{ v = ", "; v }}", ""},
	{"{{ [", "][0] }}", ""},
	{"{{ {k: ", "}.k }}", ""},
	{"{{ true ? ", " : 1 }}", ""},
	{"{{ ", " + \"\" }}", ""},
	{"{{ \"\" + ", " }}", ""},
	{"{{ v = ", " + ''; v }}", ""},
}

// HarnessC10Literal: a string literal of K symbolic bytes reaches the output HTML-escaped in every context;
// raw() gives back exactly its text.
func HarnessC10Literal() {
	q := []byte{'"', '\''}[vChoice("quote", 2)]
	body, text := symLiteral(vParam("K"), q)
	ctx := c10Contexts[vChoice("context", vParam("C"))]
	raw := vChoice("raw", 2) == 1
	lit := string([]byte{q}) + body + string([]byte{q})
	if raw {
		lit += ".raw()"
	}
	src := ctx.pre + lit + ctx.post
	out, err := EvaluateString(src, nil)
	vCover("rendered")
	vAssert(err == nil, "literal-renders-without-error")
	if raw {
		vAssert(vEqStr(out, ctx.prefix+text), "raw-yields-exactly-the-original-text")
		return
	}
	vAssert(vEqStr(out, ctx.prefix+refEscapeLiteral(text)), "literal-is-html-escaped-with-quotes-as-written")
	for i := 0; i < len(out); i++ {
		vAssert(out[i] != '<' && out[i] != '>', "no-raw-angle-brackets-in-output")
	}
}

// HarnessC10Tree: the literal passed as an insert argument, inside an insert block, or as a component argument.
func HarnessC10Tree() {
	vfsReset()
	q := []byte{'"', '\''}[vChoice("quote", 2)]
	body, text := symLiteral(vParam("K"), q)
	raw := vChoice("raw", 2) == 1
	lit := string([]byte{q}) + body + string([]byte{q})
	if raw {
		lit += ".raw()"
	}
	vfsWriteFile("templates/layouts/l.tw", "[@reserve(\"r\")]")
	vfsWriteFile("templates/components/c.tw", "<{{ a }}>")
	// another literal of the same byte length at the same line and columns of the component / layout file
	other := make([]byte, len(lit))
	for i := range other {
		other[i] = 'b'
	}
	other[0], other[len(other)-1] = '"', '"'
	if len(other) > 2 {
		other[1] = '<'
	}
	var page, pre, post string
	switch vChoice("context", 7) {
	case 5: // the component prints nothing but its argument: white space at the edges of the literal is part of it
		vfsWriteFile("templates/components/c.tw", "{{ a }}")
		page, pre, post = "@component(\"~c\", {a: "+lit+"})", "", ""
	case 6:
		vfsWriteFile("templates/components/c.tw", "{{ a }}<hr>")
		page, pre, post = "x@component(\"~c\", {a: "+lit+"})y", "x", "<hr>y"
	case 3:
		vfsWriteFile("templates/components/c.tw", "{{ "+string(other)+" }}")
		page, pre, post = "{{ "+lit+" }}@component(\"~c\", {a: 1})", "", refEscapeLiteral(string(other[1:len(other)-1]))
	case 4:
		vfsWriteFile("templates/layouts/l.tw", "{{ "+string(other)+" }}[@reserve(\"r\")]")
		page, pre, post = "{{ 1 }}@use(\"~l\")@insert(\"r\")@end", "", ""
		page = "@use(\"~l\")@insert(\"r\"){{ "+lit+" }}@end"
		pre, post = refEscapeLiteral(string(other[1:len(other)-1]))+"[", "]"
	case 0:
		page, pre, post = "@use(\"~l\")@insert(\"r\", "+lit+")", "[", "]"
	case 1:
		page, pre, post = "@use(\"~l\")@insert(\"r\")x{{ "+lit+" }}y@end", "[x", "y]"
	default:
		page, pre, post = "@component(\"~c\", {a: "+lit+"})", "<", ">"
	}
	vfsWriteFile("templates/page.tw", page)
	tpl, err := newTemplate("templates", ".tw")
	vAssert(err == nil && tpl != nil, "tree-loads")
	out, ferr := tpl.String("page", nil)
	vCover("rendered")
	vAssert(ferr == nil, "page-renders")
	if raw {
		vAssert(vEqStr(out, pre+text+post), "raw-yields-exactly-the-original-text")
	} else {
		vAssert(vEqStr(out, pre+refEscapeLiteral(text)+post), "literal-is-html-escaped-with-quotes-as-written")
	}
}

// HarnessC10Reuse: one literal used several times in a template, with and without raw(): every plain use is
// escaped and every raw() use is the original text, whatever the order of the uses.
func HarnessC10Reuse() {
	q := []byte{'"', '\''}[vChoice("quote", 2)]
	body, text := symLiteral(vParam("K"), q)
	lit := string([]byte{q}) + body + string([]byte{q})
	esc := refEscapeLiteral(text)
	var src, want string
	switch vChoice("shape", 5) {
	case 0:
		src, want = "{{ x = "+lit+" }}{{ x.raw() }}|{{ x }}", text+"|"+esc
	case 1:
		src, want = "{{ x = "+lit+" }}{{ x }}|{{ x.raw() }}|{{ x }}", esc+"|"+text+"|"+esc
	case 2:
		src, want = "@each(v in ["+lit+"]){{ v.raw() }}|{{ v }}@end", text+"|"+esc
	case 3:
		src, want = "{{ x = "+lit+" }}@if(x.raw().len() >= 0){{ x }}@end", esc
	default:
		src, want = "{{ x = "+lit+"; y = x }}{{ y.raw() }}|{{ x }}|{{ [x, x.raw()] }}", text+"|"+esc+"|"+esc+", "+text
	}
	out, err := EvaluateString(src, nil)
	vCover("rendered")
	vAssert(err == nil, "literal-renders-without-error")
	vAssert(vEqStr(out, want), "plain-uses-are-escaped-and-raw-uses-are-not")
}
