//go:build verif

package textwire

import (
	"github.com/textwire/textwire/v2/lexer"
	"github.com/textwire/textwire/v2/parser"
	"github.com/textwire/textwire/v2/token"
)

// HarnessC08Bytes: every byte string of length N (all 256 byte values) lexes and parses to a program or an error.
func HarnessC08Bytes() {
	n := vParam("N")
	b := make([]byte, n)
	for i := range b {
		b[i] = vByte("b")
	}
	src := string(b)
	prog, errs := parseStr(src)
	vCover("returned")
	if len(errs) == 0 {
		vAssert(prog != nil, "program-or-error")
		vCover("program")
	} else {
		vAssert(errs[0].Line() >= 1, "error-has-line")
		vCover("error")
	}
}

// ---- prefixes of valid templates (Appendix B.3) ----

var c08Corpus = []string{
	"a{{ 1 + 2 }}b",
	"@if(true)abc@end",
	"@if(x)a@elseif(y)b@else c@end",
	"{{ {a: 1, b: \"s\"} }}",
	"{{-- note --}}x",
	"@each(v in [1, 2])<{{ v }}>@end",
	"@for(i = 0; i < 2; i++){{ i }}@end",
	"{{ \"it's\" }}",
	"{{ a.len() ? 'y' : 'n' }}",
	"@each(v in a)@if(v){{ v }}@end@end",
	"{{ x = 1 + 2; x }}{{ y = x }}",
	"@use(\"~main\")",
	"a@reserve(\"x\")b",
	"@insert(\"x\", 1 + 2)",
	"@each(v in a)@breakIf(v == 2){{ v }}@continueIf(v)@end",
	"@dump(a, [1])",
	"@component(\"c\", {a: 1})",
	"@use(\"~m\")@insert(\"content\")<p>x</p>@end",
	"@component(\"c\")@slot(\"a\")one@end@slot two@end@end",
	"@insert(\"t\", \"a,b\")@insert(\"u\")v@end",
}

// refIncomplete: the template text p ends inside an open {{ }}, directive argument list, string or comment, or
// with a block directive whose @end has not been seen. Only the constructs used by the corpus are scanned.
func refIncomplete(p string) bool {
	open := 0
	i := 0
	for i < len(p) {
		if p[i] == '\\' && i+1 < len(p) && (p[i+1] == '{' || p[i+1] == '@') {
			i += 2
			continue
		}
		if refContainsAt(p, "{{--", i) {
			j := i + 4
			for {
				if j+4 > len(p) {
					return true
				}
				if refContainsAt(p, "--}}", j) {
					break
				}
				j++
			}
			i = j + 4
			continue
		}
		if refContainsAt(p, "{{", i) {
			j, ok := refSkipCode(p, i+2, false)
			if !ok {
				return true
			}
			i = j
			continue
		}
		if p[i] == '@' {
			kw := ""
			for _, k := range []string{"@elseif", "@else", "@end", "@if", "@each", "@for", "@use", "@reserve", "@insert",
				"@breakIf", "@continueIf", "@component", "@dump", "@slot"} {
				if refContainsAt(p, k, i) {
					kw = k
					break
				}
			}
			switch kw {
			case "@if", "@each", "@for":
				open++
			case "@end":
				open--
			}
			if kw == "@slot" {
				// at a use site a slot has a body closed by @end; its name is optional
				open++
				i += len(kw)
				if i < len(p) && p[i] == '(' {
					j, ok := refSkipCode(p, i+1, true)
					if !ok {
						return true
					}
					i = j
				}
				continue
			}
			if kw != "" {
				i += len(kw)
				if kw != "@else" && kw != "@end" {
					if i >= len(p) || p[i] != '(' {
						return true // argument list not yet written
					}
					j, ok := refSkipCode(p, i+1, true)
					if !ok {
						return true
					}
					if kw == "@insert" && !refTopLevelComma(p[i+1:j-1]) {
						open++ // block form: body up to @end
					}
					if kw == "@component" && refContainsAt(p, "@slot", j) {
						open++ // slots follow: the use is closed by its own @end
					}
					i = j
				}
				continue
			}
		}
		i++
	}
	return open > 0
}

// refSkipCode scans code from i to the closing "}}" (or the matching ")" when parens), skipping strings.
func refSkipCode(p string, i int, parens bool) (int, bool) {
	depth := 0
	braces := 0
	for i < len(p) {
		c := p[i]
		switch {
		case c == '"' || c == '\'':
			j := i + 1
			for {
				if j >= len(p) {
					return 0, false
				}
				if p[j] == c && p[j-1] != '\\' {
					break
				}
				j++
			}
			i = j + 1
			continue
		case parens && c == '(':
			depth++
		case parens && c == ')':
			if depth == 0 {
				return i + 1, true
			}
			depth--
		case !parens && c == '{':
			braces++
		case !parens && c == '}':
			if braces > 0 {
				braces--
			} else if i+1 < len(p) && p[i+1] == '}' {
				return i + 2, true
			}
		}
		i++
	}
	return 0, false
}

// HarnessC08Prefix: every prefix of a valid template, optionally followed by one arbitrary byte, terminates
// without crashing, and is rejected with an error when it is incomplete.
func HarnessC08Prefix() {
	t := c08Corpus[vChoice("template", len(c08Corpus))]
	cut := vChoice("cut", len(t))
	src := t[:cut]
	if vChoice("extra", 2) == 1 {
		b := vByte("b")
		vAssume(b != 0)
		src += string([]byte{b})
	}
	incomplete := refIncomplete(src)
	prog, errs := parseStr(src)
	vCover("returned")
	if len(errs) == 0 {
		vAssert(prog != nil, "program-or-error")
		vAssert(!incomplete, "incomplete-template-is-rejected")
	} else {
		vAssert(errs[0].Line() >= 1, "error-has-line")
	}
}

// refTopLevelComma: the argument text holds a comma outside strings, brackets and braces.
func refTopLevelComma(a string) bool {
	depth := 0
	for i := 0; i < len(a); i++ {
		c := a[i]
		switch {
		case c == '"' || c == '\'':
			j := i + 1
			for j < len(a) && !(a[j] == c && a[j-1] != '\\') {
				j++
			}
			i = j
		case c == '(' || c == '[' || c == '{':
			depth++
		case c == ')' || c == ']' || c == '}':
			depth--
		case c == ',' && depth == 0:
			return true
		}
	}
	return false
}

// ---- the parser on an arbitrary token stream (over-approximation of the lexer) ----

var c08Tokens []token.Token
var c08Next int

// hTokenSource replaces (*lexer.Lexer).NextToken in the engine for HarnessC08Tokens: it hands out the harness's
// token list and then EOF forever. Natively the real lexer runs on a rendering of the same token list.
func hTokenSource(l *lexer.Lexer) token.Token {
	if c08Next < len(c08Tokens) {
		t := c08Tokens[c08Next]
		c08Next++
		return t
	}
	return token.Token{Type: token.EOF}
}

var c08Lexemes = map[token.TokenType]string{
	token.IDENT: "x", token.HTML: "h", token.INT: "1", token.FLOAT: "1.5", token.STR: "\"s\"",
	token.TRUE: "true", token.FALSE: "false", token.NIL: "nil", token.IN: "in", token.DUMP: "@dump",
}

// HarnessC08Tokens: K tokens of symbolic type (any of the token types) followed by EOF: the parser returns without
// panicking, whatever the sequence.
func HarnessC08Tokens() {
	k := vParam("K")
	c08Tokens = nil
	c08Next = 0
	text := ""
	for i := 0; i < k; i++ {
		ty := token.TokenType(vInt("type", int(token.IDENT), int(token.DUMP)))
		lit := "x"
		if ty == token.INT {
			lit = "1"
		}
		if ty == token.FLOAT {
			lit = "1.5"
		}
		c08Tokens = append(c08Tokens, token.Token{Type: ty, Literal: lit})
		if vNative() {
			if lx, ok := c08Lexemes[ty]; ok {
				text += lx + " "
			} else {
				text += token.String(ty) + " "
			}
		}
	}
	if vNative() {
		// natively the same type sequence is rendered as source text and goes through the real lexer
		parseStr("{{ " + text)
		parseStr(text)
		vCover("parsed")
		return
	}
	p := parser.New(lexer.New(""), "")
	prog := p.ParseProgram()
	vCover("parsed")
	vAssert(prog != nil || p.HasErrors(), "program-or-error")
}

var c08Alphabet = []string{
	"t", "{{ 1 }}", "{{ x = 1 }}", "@if(x)", "@elseif(y)", "@else", "@end", "@each(v in a)", "@for(i = 0; i < 1; i++)",
	"@break", "@continueIf(x)", "@slot", "@slot(\"a\")", "@component(\"c\")", "@component(\"c\", {a: 1})", "@dump(1)",
	"@insert(\"a\")", "@insert(\"a\", 1)", "@reserve(\"a\")", "@use(\"~l\")", "{{-- c --}}", "\\@if", "{{ ", ")", "(",
}

// HarnessC08Lexemes: every sequence of K lexemes from the lexeme alphabet, with one symbolic byte appended: parsing
// returns a program or an error with a line, without panicking or hanging.
func HarnessC08Lexemes() {
	k := vParam("K")
	src := ""
	for i := 0; i < k; i++ {
		src += c08Alphabet[vChoice("lexeme", len(c08Alphabet))]
	}
	b := vByte("tail")
	vAssume(b != 0)
	src += string([]byte{b})
	prog, errs := parseStr(src)
	vCover("returned")
	if len(errs) == 0 {
		vAssert(prog != nil, "program-or-error")
	} else {
		vAssert(errs[0].Line() >= 1, "error-has-line")
	}
}

// c08Holes: complete templates with one position (marked by the byte 0x01) where a name, an operand or any other
// code token stands.
var c08Holes = []string{
	"{{ \x01 }}", "{{ 1 + \x01 }}", "{{ \x01 + 1 }}", "{{ a.\x01 }}", "{{ \"s\".len(\x01) }}", "{{ [1, \x01] }}",
	"{{ {\x01: 1} }}", "{{ {k: \x01} }}", "{{ {k: 1, \x01} }}", "{{ x = \x01 }}", "{{ \x01 = 1 }}", "{{ a[\x01] }}", "{{ a ? \x01 : 2 }}",
	"@if(\x01)x@end", "@if(true)x@elseif(\x01)y@end", "@each(\x01 in [1])x@end", "@each(v in \x01)x@end", "@for(\x01 = 0; i < 1; i++)x@end",
	"@for(i = 0; \x01; i++)x@end", "@for(i = 0; i < 1; \x01)x@end", "@insert(\x01)x@end", "@insert(\"a\", \x01)", "@reserve(\x01)",
	"@use(\x01)", "@component(\x01)", "@component(\"c\", \x01)", "@component(\"c\", {k: \x01})", "@component(\"c\")@slot(\x01)x@end@end",
	"@dump(\x01)", "@each(v in [1])@breakIf(\x01)@end", "@each(v in [1])@continueIf(\x01)@end", "{{ 1; \x01 }}", "{{ -\x01 }}", "{{ !\x01 }}",
	"{{ (\x01) }}", "{{ a.f(1, \x01) }}", "{{ a\x01 }}", "{{ 1 \x01 2 }}",
}

// HarnessC08Illegal: a template in which the lexer finds an illegal character is rejected with an error, wherever
// the character stands (also where the parser takes a name from the token stream).
func HarnessC08Illegal() {
	t := c08Holes[vChoice("template", len(c08Holes))]
	b := vByte("byte")
	vAssume(b != 0)
	src := ""
	for i := 0; i < len(t); i++ {
		if t[i] == 1 {
			src += string([]byte{b})
		} else {
			src += t[i : i+1]
		}
	}
	illegal := false
	l := lexer.New(src)
	for i := 0; i < len(src)+3; i++ {
		tok := l.NextToken()
		if tok.Type == token.ILLEGAL {
			illegal = true
		}
		if tok.Type == token.EOF {
			break
		}
	}
	vCover("lexed")
	if !illegal {
		vAssume(false) // the byte is a legal one at this place: nothing is demanded
	}
	_, errs := parseStr(src)
	vCover("error")
	vAssert(len(errs) > 0, "template-with-an-illegal-character-is-rejected")
	vAssert(errs[0].Line() == 1, "error-carries-the-line")
}


var c08Odd = []string{
	"@component({a: 1}.a)", "@component({a: 1}[0])", "@component({} ? 1 : 2)", "@component({a: 1}++)", "@component({a: 1} == {a: 1})",
	"@component(\"~\")", "@use(\"~\")", "@use(~", "@component(~", "@component(\"c\", {a: 1}.a)", "@component(\"c\", [1])", "@component(\"c\", 1 + 2)",
	"@use(\"\")", "@component(\"\")", "@insert(\"\")x@end", "@reserve(\"\")", "@insert({a: 1})x@end", "@reserve([1])", "@use(1)", "@slot(1)",
	"@each(1 in [1])x@end", "@each([v] in [1])x@end", "@for(1; 2; 3)x@break@end", "{{ 1.2.3 }}", "{{ a..b }}", "{{ a.1 }}", "{{ [1,,2] }}", "{{ {a:: 1} }}",
	"{{ {1: 2} }}", "{{ {\"k\": 1} }}", "{{ f(1) }}", "{{ 1(2) }}", "{{ \"s\"() }}", "{{ a.b.c.d.e() }}", "{{ ((((1)))) }}", "{{ -!-!1 }}", "{{ 1 ? 2 ? 3 : 4 : 5 }}",
	// a directive argument that is an expression with an operand missing somewhere inside it
	"@component(\"c\", [,])", "@component(\"c\", [1, *])", "@component(\"c\", [[,]])", "@component(\"c\", a.f(,))", "@component(\"c\", a[*])",
	"@component(\"c\", {k: [,]})", "@insert(\"x\", [,])", "@insert(\"x\", a[*])", "@each(v in [,])x@end", "@if([1, *])x@end", "@use([,])", "@reserve(a[*])",
	"{{ [,] }}", "{{ a.f(,) }}", "{{ a[*] }}", "@breakIf([,])", "@for(i = [,]; a[*]; a.f(,))x@end", "@dump([,], a[*])",
}

// HarnessC08Odd: complete inputs of unusual shape - well-formed pieces combined in places where something else is
// expected - are parsed (and, when they parse, evaluated) without crashing: a program or an error with a line.
func HarnessC08Odd() {
	src := c08Odd[vChoice("input", len(c08Odd))]
	prog, errs := parseStr(src)
	vCover("parsed")
	if len(errs) > 0 {
		vCover("error")
		vAssert(errs[0].Line() >= 1, "error-carries-a-line")
		return
	}
	vAssert(prog != nil, "program-or-error")
	_, _ = EvaluateString(src, map[string]any{"a": 1})
}
