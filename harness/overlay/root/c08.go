//go:build verif

package textwire

// HarnessC08Bytes: every byte string of length N (all 256 byte values) lexes and parses to a program or an error.
func HarnessC08Bytes() {
	n := vParam("N")
	b := make([]byte, n)
	for i := range b {
		b[i] = vByte("b")
	}
	src := string(b)
	prog, errs := parseStr(src)
	vCover("returned")
	if len(errs) == 0 {
		vAssert(prog != nil, "program-or-error")
		vCover("program")
	} else {
		vAssert(errs[0].Line() >= 1, "error-has-line")
		vCover("error")
	}
}
