//go:build verif

package textwire

import (
	"errors"
	"io/fs"
	"maps"
	"reflect"
	"sort"
	"strings"
	"sync"
	"sync/atomic"
)

// Engine self-tests: concrete programs over the library functions that the engine models instead of interpreting
// (atomic.Pointer, sync.Map, sync.Pool, sort.Slice, reflect, errors.As). Every one runs in the engine and natively
// (`symgo validate`); both must pass every assertion.

var selfPtr atomic.Pointer[string]
var selfMap sync.Map
var selfPool = sync.Pool{New: func() any { return new([]int) }}

type selfEmb struct{ Q int }
type selfT struct {
	A int
	s string
	*selfEmb
	P *int
}

type selfErr struct{ code int }

func (e *selfErr) Error() string { return "self" }

type selfWrap struct{ inner error }

func (w selfWrap) Error() string { return "wrap: " + w.inner.Error() }
func (w selfWrap) Unwrap() error { return w.inner }

func HarnessSelfAtomicPointer() {
	vAssert(selfPtr.Load() == nil, "initially-nil")
	s := "x"
	vAssert(selfPtr.CompareAndSwap(nil, &s), "cas-from-nil-succeeds")
	p := selfPtr.Load()
	vAssert(p != nil && *p == "x", "load-after-cas")
	t := "y"
	vAssert(!selfPtr.CompareAndSwap(nil, &t), "second-cas-from-nil-fails")
	vAssert(selfPtr.CompareAndSwap(&s, &t), "cas-from-current-succeeds")
	old := selfPtr.Swap(&s)
	vAssert(old == &t && *selfPtr.Load() == "x", "swap")
	selfPtr.Store(nil)
	vAssert(selfPtr.Load() == nil, "store-nil")
	vCover("done")
}

func HarnessSelfSyncMap() {
	_, ok := selfMap.Load("k")
	vAssert(!ok, "empty-map-has-no-key")
	selfMap.Store("k", 1)
	selfMap.Store(true, "t")
	v, ok := selfMap.Load("k")
	vAssert(ok && v.(int) == 1, "load-after-store")
	v, ok = selfMap.Load(true)
	vAssert(ok && v.(string) == "t", "bool-key")
	_, ok = selfMap.Load(false)
	vAssert(!ok, "other-key-absent")
	a, loaded := selfMap.LoadOrStore("k", 2)
	vAssert(loaded && a.(int) == 1, "load-or-store-existing")
	a, loaded = selfMap.LoadOrStore("n", 3)
	vAssert(!loaded && a.(int) == 3, "load-or-store-new")
	selfMap.Delete("k")
	_, ok = selfMap.Load("k")
	vAssert(!ok, "deleted")
	vCover("done")
}

func HarnessSelfPool() {
	b := selfPool.Get().(*[]int)
	vAssert(len(*b) == 0, "new-value")
	*b = append(*b, 7)
	selfPool.Put(b)
	c := selfPool.Get().(*[]int)
	// a pool may hand back the value put last or a new one; when it is the same one its content is still there
	vAssert(c != b || (len(*c) == 1 && (*c)[0] == 7), "pooled-value-keeps-its-content")
	vCover("done")
}

func HarnessSelfSort() {
	xs := []string{"b", "B", "a", "C", "c", "A"}
	sort.Slice(xs, func(i, j int) bool { return strings.ToLower(xs[i]) < strings.ToLower(xs[j]) })
	vAssert(strings.Join(xs, "") == "aAbBCc", "insertion-order-of-equal-elements-is-kept-for-short-slices")
	ys := []int{3, 1, 2}
	sort.SliceStable(ys, func(i, j int) bool { return ys[i] < ys[j] })
	vAssert(ys[0] == 1 && ys[1] == 2 && ys[2] == 3, "stable-sort")
	zs := []string{"q", "b"}
	sort.Strings(zs)
	vAssert(zs[0] == "b", "sort-strings")
	vCover("done")
}

func HarnessSelfReflect() {
	one := 1
	v := selfT{A: 5, s: "h", selfEmb: &selfEmb{Q: 6}, P: &one}
	rv := reflect.ValueOf(v)
	vAssert(rv.Kind() == reflect.Struct && rv.NumField() == 4, "struct-kind")
	fields := reflect.VisibleFields(rv.Type())
	names := ""
	for _, f := range fields {
		names += f.Name + ","
	}
	vAssert(names == "A,s,selfEmb,Q,P,", "visible-fields")
	for _, f := range fields {
		if f.Name == "Q" {
			vAssert(rv.FieldByIndex(f.Index).Interface().(int) == 6, "promoted-field-through-unexported-embedded-pointer")
		}
	}
	vAssert(!rv.IsZero(), "non-zero-struct")
	vAssert(reflect.ValueOf(selfT{}).IsZero(), "zero-struct")
	vAssert(reflect.ValueOf([]int(nil)).IsZero() && !reflect.ValueOf([]int{}).IsZero(), "nil-and-empty-slice")
	vAssert(reflect.ValueOf(0.0).IsZero() && reflect.ValueOf("").IsZero() && !reflect.ValueOf("a").IsZero(), "basic-kinds")
	var np *int
	vAssert(reflect.ValueOf(np).IsNil() && reflect.ValueOf(np).IsZero(), "nil-pointer")
	vAssert(reflect.ValueOf(&one).Elem().Int() == 1, "elem")
	vAssert(reflect.DeepEqual(map[string]any{"a": []any{1, "x"}}, map[string]any{"a": []any{1, "x"}}), "deep-equal")
	vAssert(!reflect.DeepEqual([]any{1}, []any{int64(1)}), "deep-equal-distinguishes-types")
	vCover("done")
}

func HarnessSelfErrors() {
	base := &selfErr{code: 3}
	var err error = selfWrap{selfWrap{base}}
	var target *selfErr
	vAssert(errors.As(err, &target) && target == base, "as-finds-the-wrapped-concrete-error")
	var w selfWrap
	vAssert(errors.As(err, &w) && w.inner != nil, "as-finds-the-outermost-match")
	var pe *fs.PathError
	vAssert(!errors.As(err, &pe), "as-without-a-match")
	vAssert(errors.Is(err, base), "is-through-unwrap")
	vAssert(!errors.Is(err, fs.ErrNotExist), "is-without-a-match")
	vfsReset()
	_, rerr := EvaluateFile(vfsCwd()+"/nope.tw", nil)
	vAssert(rerr != nil, "missing-file-is-an-error")
	vCover("done")
}

func HarnessSelfMaps() {
	m := map[string]int{"a": 1, "b": 2}
	c := maps.Clone(m)
	c["a"] = 9
	delete(c, "b")
	vAssert(m["a"] == 1 && len(m) == 2 && c["a"] == 9 && len(c) == 1, "clone-is-independent")
	var nm map[string]int
	vAssert(maps.Clone(nm) == nil, "clone-of-nil")
	vCover("done")
}

type selfTriple struct{ a, b, c int }

// HarnessSelfAppend: capacities after append follow the gc runtime's growth (so that spare capacity, and with it
// aliasing between slices, arises in the engine exactly where it does natively).
func HarnessSelfAppend() {
	var ps []*int
	caps := ""
	for i := 0; i < 9; i++ {
		ps = append(ps, nil)
		caps += string([]byte{byte('a' + cap(ps))})
	}
	vAssert(caps == "bceeiiiiq", "pointer-slice-growth") // 1 2 4 4 8 8 8 8 16
	var bs []byte
	bs = append(bs, 1)
	vAssert(cap(bs) == 8, "byte-slice-first-growth")
	bs = append(bs, 2, 3, 4, 5, 6, 7, 8, 9)
	vAssert(cap(bs) == 16, "byte-slice-second-growth")
	var ss []string
	for i := 0; i < 5; i++ {
		ss = append(ss, "x")
	}
	vAssert(cap(ss) == 8, "string-slice-growth")
	var ts []selfTriple
	for i := 0; i < 3; i++ {
		ts = append(ts, selfTriple{})
	}
	vAssert(cap(ts) == 4, "struct-slice-growth")
	at3 := append([]*int(nil), nil, nil, nil)
	at5 := append([]*int(nil), nil, nil, nil, nil, nil)
	vAssert(cap(at3) == 3 && cap(at5) == 6, "append-several-at-once")
	// aliasing through spare capacity
	base := append([]*int(nil), nil, nil, nil) // len 3 cap 3
	base = append(base, nil)                  // len 4 cap 6
	x, y := 1, 2
	a := append(base, &x)
	b := append(base, &y)
	vAssert(a[4] == &y && b[4] == &y, "two-appends-to-one-slice-with-spare-capacity-share-the-slot")
	vCover("done")
}

// HarnessSelfGoroutines: goroutines joined by a WaitGroup have all run when Wait returns (the engine runs them to
// completion one at a time; natively they run concurrently - the assertions do not depend on the order).
func HarnessSelfGoroutines() {
	var mu sync.Mutex
	var wg sync.WaitGroup
	var got []int
	for i := 1; i <= 3; i++ {
		wg.Add(1)
		go func(k int) {
			defer wg.Done()
			mu.Lock()
			got = append(got, k)
			mu.Unlock()
		}(i)
	}
	wg.Wait()
	sum := 0
	for _, g := range got {
		sum += g
	}
	vAssert(len(got) == 3 && sum == 6, "all-goroutines-have-run-when-wait-returns")
	vCover("done")
}
