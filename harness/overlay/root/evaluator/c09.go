//go:build verif

package evaluator

import (
	"sort"

	"github.com/textwire/textwire/v2/config"
	"github.com/textwire/textwire/v2/ctx"
	"github.com/textwire/textwire/v2/object"
)

// hSymCount: any int64 except the band (8, 2^33), where an allocation would be neither small enough to execute
// symbolically nor large enough to be certain to exhaust memory (stated bound of C09/C11).
func hSymCount(name string) int64 {
	v := vInt64(name)
	if v > 8 {
		vAssume(v >= 1<<33)
	}
	return v
}

func hSymStr(name string, maxLen int) string {
	n := vChoice(name+".len", maxLen+1)
	b := make([]byte, n)
	for i := range b {
		b[i] = vByte(name)
	}
	return string(b)
}

// hSymScalar returns a template value of a solver-irrelevant (enumerated) kind with a symbolic payload.
func hSymScalar(name string, strLen int) object.Object {
	switch vChoice(name+".kind", 5) {
	case 0:
		return &object.Int{Value: hSymCount(name)}
	case 1:
		return &object.Str{Value: hSymStr(name, strLen)}
	case 2:
		return &object.Float{Value: vFloat64(name)}
	case 3:
		return nativeBoolToBooleanObject(vBool(name))
	}
	return NIL
}

func hSymObject(name string, strLen int) object.Object {
	switch vChoice(name+".shape", 4) {
	case 0:
		return hSymScalar(name, strLen)
	case 1:
		n := vChoice(name+".n", 3)
		elems := []object.Object{}
		for i := 0; i < n; i++ {
			elems = append(elems, hSymScalar(name+".e", strLen))
		}
		return &object.Array{Elements: elems}
	case 2:
		return &object.Obj{Pairs: map[string]object.Object{}}
	}
	return &object.Obj{Pairs: map[string]object.Object{"k": &object.Int{Value: vInt64(name + ".k")}, "": NIL}}
}

func hBuiltinNames() (types []object.ObjectType, names map[object.ObjectType][]string) {
	names = map[object.ObjectType][]string{}
	for t, fs := range functions {
		types = append(types, t)
		for n := range fs {
			names[t] = append(names[t], n)
		}
		sort.Strings(names[t])
	}
	for i := 1; i < len(types); i++ {
		for j := i; j > 0 && types[j] < types[j-1]; j-- {
			types[j], types[j-1] = types[j-1], types[j]
		}
	}
	return
}

var hIntBoundary = []int64{0, 7, -7, 1234567, -9223372036854775808, 9223372036854775807}
var hFloatBoundary = []float64{0, 1.5, -2.25, 1e300, -1e-300, 9223372036854775807, -9223372036854775808, 4503599627370497.5}

func hReceiver(t object.ObjectType, strLen int, printed bool) object.Object {
	switch t {
	case object.STR_OBJ:
		return &object.Str{Value: hSymStr("recv", strLen)}
	case object.INT_OBJ:
		if printed {
			return &object.Int{Value: hIntBoundary[vChoice("recv.int", len(hIntBoundary))]}
		}
		return &object.Int{Value: vInt64("recv")}
	case object.FLOAT_OBJ:
		if printed {
			// formatting needs a concrete number: boundary set plus NaN and the infinities
			k := vChoice("recv.float", len(hFloatBoundary)+3)
			if k < len(hFloatBoundary) {
				return &object.Float{Value: hFloatBoundary[k]}
			}
			zero := 0.0
			return &object.Float{Value: []float64{zero / zero, 1 / zero, -1 / zero}[k-len(hFloatBoundary)]}
		}
		return &object.Float{Value: vFloat64("recv")}
	case object.BOOL_OBJ:
		return nativeBoolToBooleanObject(vBool("recv"))
	case object.ARR_OBJ:
		n := vChoice("recv.n", 4)
		elems := []object.Object{}
		for i := 0; i < n; i++ {
			if printed {
				elems = append(elems, &object.Str{Value: hSymStr("recv.e", 1)})
			} else {
				elems = append(elems, &object.Int{Value: vInt64("recv.e")})
			}
		}
		return &object.Array{Elements: elems}
	}
	vFail("unknown-receiver-type-in-function-table")
	return nil
}

// HarnessC09Builtins: every built-in of the live function table, on a receiver of its type with a symbolic payload
// and 0..A arguments of every kind with symbolic payloads, returns a value or an error - it never panics.
func HarnessC09Builtins() {
	types, names := hBuiltinNames()
	t := types[vChoice("type", len(types))]
	fname := names[t][vChoice("func", len(names[t]))]
	strLen := vParam("L")
	recv := hReceiver(t, strLen, (t == object.FLOAT_OBJ && fname == "str") || (t == object.ARR_OBJ && fname == "join") ||
		(t == object.INT_OBJ && (fname == "str" || fname == "len" || fname == "decimal")))
	nargs := vChoice("nargs", vParam("A")+1)
	args := make([]object.Object, nargs)
	for i := range args {
		args[i] = hSymObject("arg", 1)
	}
	c := ctx.NewContext("", config.NewFunc(), config.New("templates", ".tw", "", false))
	res, err := functions[t][fname].Fn(c, recv, args...)
	vCover("returned")
	vAssert(res != nil || err != nil, "builtin-returns-value-or-error")
}
