//go:build verif

package evaluator

import (
	"unicode/utf8"

	"github.com/textwire/textwire/v2/config"
	"github.com/textwire/textwire/v2/ctx"
	"github.com/textwire/textwire/v2/object"
)

func hCtx() *ctx.EvalCtx {
	return ctx.NewContext("", config.NewFunc(), config.New("templates", ".tw", "", false))
}

func hCall(t object.ObjectType, name string, recv object.Object, args ...object.Object) (object.Object, error) {
	f, ok := functions[t][name]
	if !ok {
		vFail("builtin-" + name + "-missing-from-function-table")
	}
	return f.Fn(hCtx(), recv, args...)
}

// hValidStr: 0..maxLen symbolic bytes forming valid UTF-8 (the library's own validity predicate, interpreted).
func hValidStr(name string, maxLen int) string {
	s := hSymStr(name, maxLen)
	vAssume(utf8.ValidString(s))
	return s
}

func hStrResult(res object.Object, err error, tag string) string {
	vAssert(err == nil, tag+"-returns-no-error")
	o, ok := res.(*object.Str)
	vAssert(ok, tag+"-returns-a-string")
	return o.Value
}

func hIsNil(res object.Object) bool {
	_, ok := res.(*object.Nil)
	return ok
}

func refTrim(s string, cut string, left, right bool) string {
	in := func(c byte) bool {
		for i := 0; i < len(cut); i++ {
			if cut[i] == c {
				return true
			}
		}
		return false
	}
	i, j := 0, len(s)
	if left {
		for i < j && in(s[i]) {
			i++
		}
	}
	if right {
		for j > i && in(s[j-1]) {
			j--
		}
	}
	return s[i:j]
}

func refContains(s, sub string) bool {
	for i := 0; i+len(sub) <= len(s); i++ {
		if s[i:i+len(sub)] == sub {
			return true
		}
	}
	return false
}

func refSplit1(s string, sep byte) []string {
	out := []string{}
	start := 0
	for i := 0; i < len(s); i++ {
		if s[i] == sep {
			out = append(out, s[start:i])
			start = i + 1
		}
	}
	return append(out, s[start:])
}

func refUpperASCII(c byte) byte {
	if c >= 'a' && c <= 'z' {
		return c - 32
	}
	return c
}

func refLowerASCII(c byte) byte {
	if c >= 'A' && c <= 'Z' {
		return c + 32
	}
	return c
}

var c11StrFuncs = []string{"len", "reverse", "at", "first", "last", "truncate", "capitalize", "upper", "lower",
	"trim", "trimLeft", "trimRight", "contains", "split", "repeat", "decimal"}

// HarnessC11Str: contracts of the string built-ins on receivers of <= L symbolic bytes (valid UTF-8), with every
// integer argument ranging over all of int64.
func HarnessC11Str() {
	name := c11StrFuncs[vChoice("func", len(c11StrFuncs))]
	s := hValidStr("s", vParam("L"))
	recv := &object.Str{Value: s}
	runes := []rune(s)
	n := len(runes)
	T := object.STR_OBJ
	var out string
	isStr := false
	switch name {
	case "len":
		res, err := hCall(T, name, recv)
		vAssert(err == nil, "len-no-error")
		o, ok := res.(*object.Int)
		vAssert(ok && o.Value == int64(n), "len-counts-characters")
	case "reverse":
		res, err := hCall(T, name, recv)
		out = hStrResult(res, err, name)
		isStr = true
		rev := make([]rune, n)
		for i := range runes {
			rev[n-1-i] = runes[i]
		}
		vAssert(vEqStr(out, string(rev)), "reverse-works-on-characters")
	case "at", "first", "last":
		var i int64
		var res object.Object
		var err error
		switch name {
		case "at":
			i = vInt64("i")
			res, err = hCall(T, name, recv, &object.Int{Value: i})
		case "first":
			res, err = hCall(T, name, recv)
		default:
			i = -1
			res, err = hCall(T, name, recv)
		}
		vAssert(err == nil, name+"-no-error")
		if i < 0 {
			i += int64(n)
		}
		if i < 0 || i >= int64(n) {
			vAssert(hIsNil(res), name+"-out-of-range-is-nil")
		} else {
			o, ok := res.(*object.Str)
			vAssert(ok, name+"-returns-a-string")
			vAssert(vEqStr(o.Value, string(runes[i])), name+"-returns-the-character-at-the-index")
			out, isStr = o.Value, true
		}
	case "truncate":
		k := vInt64("n")
		res, err := hCall(T, name, recv, &object.Int{Value: k})
		out = hStrResult(res, err, "truncate")
		isStr = true
		if k >= 0 {
			if k >= int64(n) {
				vAssert(vEqStr(out, s), "truncate-keeps-short-strings")
			} else {
				vAssert(vEqStr(out, string(runes[:k])+"..."), "truncate-cuts-on-characters-and-appends-ellipsis")
			}
		}
	case "capitalize":
		res, err := hCall(T, name, recv)
		out = hStrResult(res, err, name)
		isStr = true
		if len(s) > 0 && s[0] < 0x80 {
			want := string([]byte{refUpperASCII(s[0])}) + s[1:]
			vAssert(vEqStr(out, want), "capitalize-upper-cases-the-first-character")
		}
	case "upper", "lower":
		ascii := true
		for i := 0; i < len(s); i++ {
			if s[i] >= 0x80 {
				ascii = false
			}
		}
		vAssume(ascii) // case mapping of symbolic non-ASCII runes is outside the bound
		res, err := hCall(T, name, recv)
		out = hStrResult(res, err, name)
		isStr = true
		want := make([]byte, len(s))
		for i := 0; i < len(s); i++ {
			if name == "upper" {
				want[i] = refUpperASCII(s[i])
			} else {
				want[i] = refLowerASCII(s[i])
			}
		}
		vAssert(vEqStr(out, string(want)), name+"-maps-every-letter")
	case "trim", "trimLeft", "trimRight":
		cut := "\t \n\r"
		var res object.Object
		var err error
		if vChoice("cutset-arg", 2) == 1 {
			c := vByte("cut")
			vAssume(c < 0x80)
			cut = string([]byte{c})
			res, err = hCall(T, name, recv, &object.Str{Value: cut})
		} else {
			res, err = hCall(T, name, recv)
		}
		out = hStrResult(res, err, name)
		isStr = true
		vAssert(vEqStr(out, refTrim(s, cut, name != "trimRight", name != "trimLeft")), name+"-strips-the-cutset-from-the-ends")
	case "contains":
		sub := hSymStr("sub", 2)
		res, err := hCall(T, name, recv, &object.Str{Value: sub})
		vAssert(err == nil, "contains-no-error")
		o, ok := res.(*object.Bool)
		vAssert(ok && o.Value == refContains(s, sub), "contains-is-substring-search")
	case "split":
		sep := vByte("sep")
		vAssume(sep < 0x80)
		res, err := hCall(T, name, recv, &object.Str{Value: string([]byte{sep})})
		vAssert(err == nil, "split-no-error")
		arr, ok := res.(*object.Array)
		vAssert(ok, "split-returns-an-array")
		want := refSplit1(s, sep)
		vAssert(len(arr.Elements) == len(want), "split-number-of-parts")
		for i := range want {
			e, ok := arr.Elements[i].(*object.Str)
			vAssert(ok && vEqStr(e.Value, want[i]), "split-parts")
		}
	case "repeat":
		k := vInt("count", 0, 3)
		res, err := hCall(T, name, recv, &object.Int{Value: int64(k)})
		out = hStrResult(res, err, "repeat")
		isStr = true
		want := ""
		for i := 0; i < k; i++ {
			want += s
		}
		vAssert(vEqStr(out, want), "repeat-concatenates-copies")
		// a count whose product with the receiver's length does not fit is refused with an error, whatever the length
		if len(s) >= 2 {
			huge := []int64{1 << 62, 9223372036854775807, (1 << 62) + 1, 6148914691236517206, 4611686018427387905}[vChoice("huge", 5)]
			_, herr := hCall(T, name, recv, &object.Int{Value: huge})
			vAssert(herr != nil, "oversized-repeat-is-an-error")
		}
	case "decimal":
		// a string that spells an integer (optional sign, then digits) gains ".00"; any other string is returned as it is
		res, err := hCall(T, name, recv)
		out = hStrResult(res, err, "decimal")
		isStr = true
		isInt := len(s) > 0
		start := 0
		if len(s) > 0 && (s[0] == '+' || s[0] == '-') {
			start = 1
		}
		if start == len(s) {
			isInt = false
		}
		for i := start; i < len(s); i++ {
			if s[i] < '0' || s[i] > '9' {
				isInt = false
			}
		}
		if isInt {
			vAssert(vEqStr(out, s+".00"), "decimal-appends-two-decimals-to-an-integer-string")
		} else {
			vAssert(vEqStr(out, s), "decimal-leaves-a-non-integer-string-unchanged")
		}
	}
	vCover("checked")
	// purity and UTF-8 preservation
	vAssert(vEqStr(recv.Value, s), "receiver-unchanged")
	if isStr {
		vAssert(utf8.ValidString(out), "valid-utf8-in-valid-utf8-out")
	}
}

var c11ArrFuncs = []string{"len", "join", "reverse", "slice1", "slice2", "append", "prepend", "contains", "shuffle", "rand", "append-twice", "slice-then-append", "join-strings", "contains-nested"}

func hIntArray(name string, maxLen int) ([]int64, *object.Array) {
	n := vChoice(name+".n", maxLen+1)
	vals := make([]int64, n)
	elems := []object.Object{}
	for i := 0; i < n; i++ {
		vals[i] = vInt64(name)
		elems = append(elems, &object.Int{Value: vals[i]})
	}
	return vals, &object.Array{Elements: elems}
}

func hIntsOf(res object.Object, tag string) []int64 {
	arr, ok := res.(*object.Array)
	vAssert(ok, tag+"-returns-an-array")
	out := make([]int64, len(arr.Elements))
	for i, e := range arr.Elements {
		o, ok := e.(*object.Int)
		vAssert(ok, tag+"-elements-keep-their-type")
		out[i] = o.Value
	}
	return out
}

func hSameInts(a, b []int64) bool {
	if len(a) != len(b) {
		return false
	}
	for i := range a {
		if a[i] != b[i] {
			return false
		}
	}
	return true
}

// HarnessC11Arr: contracts of the array built-ins on arrays of <= L symbolic integers.
func HarnessC11Arr() {
	name := c11ArrFuncs[vChoice("func", len(c11ArrFuncs))]
	vals, recv := hIntArray("a", vParam("L"))
	n := len(vals)
	T := object.ARR_OBJ
	switch name {
	case "len":
		res, err := hCall(T, "len", recv)
		o, ok := res.(*object.Int)
		vAssert(err == nil && ok && o.Value == int64(n), "len-counts-elements")
	case "join":
		// elements printed: short symbolic strings instead of integers
		m := vChoice("j.n", 3)
		parts := make([]string, m)
		elems := []object.Object{}
		for i := range parts {
			parts[i] = hSymStr("j", 1)
			elems = append(elems, &object.Str{Value: parts[i]})
		}
		sep := hSymStr("sep", 1)
		res, err := hCall(T, "join", &object.Array{Elements: elems}, &object.Str{Value: sep})
		out := hStrResult(res, err, "join")
		want := ""
		for i, p := range parts {
			if i > 0 {
				want += sep
			}
			want += p
		}
		vAssert(vEqStr(out, want), "join-concatenates-with-separator")
	case "reverse":
		res, err := hCall(T, "reverse", recv)
		vAssert(err == nil, "reverse-no-error")
		got := hIntsOf(res, "reverse")
		want := make([]int64, n)
		for i := range vals {
			want[n-1-i] = vals[i]
		}
		vAssert(hSameInts(got, want), "reverse-reverses")
	case "slice1", "slice2":
		start := vInt64("start")
		args := []object.Object{&object.Int{Value: start}}
		end := int64(n)
		if name == "slice2" {
			end = vInt64("end")
			args = append(args, &object.Int{Value: end})
		}
		res, err := hCall(T, "slice", recv, args...)
		vAssert(err == nil, "slice-no-error")
		got := hIntsOf(res, "slice")
		if start >= 0 && start <= end && end <= int64(n) {
			vAssert(hSameInts(got, vals[start:end]), "slice-in-range-is-exact")
		} else {
			// clamped: some contiguous part of the receiver
			found := false
			for i := 0; i+len(got) <= n; i++ {
				if hSameInts(got, vals[i:i+len(got)]) {
					found = true
				}
			}
			vAssert(found, "slice-out-of-range-is-a-contiguous-part")
		}
	case "append", "prepend":
		x, y := vInt64("x"), vInt64("y")
		res, err := hCall(T, name, recv, &object.Int{Value: x}, &object.Int{Value: y})
		vAssert(err == nil, name+"-no-error")
		got := hIntsOf(res, name)
		var want []int64
		if name == "append" {
			want = append(append(want, vals...), x, y)
		} else {
			want = append(append(want, x, y), vals...)
		}
		vAssert(hSameInts(got, want), name+"-extends-the-array")
	case "append-twice", "slice-then-append":
		// no call may change a value that an earlier call returned or received: the receiver's element slice has
		// spare capacity here (as it has after slice() or for literals of some lengths)
		x, y := vInt64("x"), vInt64("y")
		var base *object.Array
		var baseVals []int64
		if name == "append-twice" {
			roomy := make([]object.Object, n, n+4)
			copy(roomy, recv.Elements)
			base, baseVals = &object.Array{Elements: roomy}, vals
		} else {
			if n == 0 {
				vAssume(false)
			}
			res, err := hCall(T, "slice", recv, &object.Int{Value: 0}, &object.Int{Value: int64(n - 1)})
			vAssert(err == nil, "slice-no-error")
			base, baseVals = res.(*object.Array), vals[:n-1]
		}
		r1, err1 := hCall(T, "append", base, &object.Int{Value: x})
		vAssert(err1 == nil, "append-no-error")
		first := hIntsOf(r1, "append")
		r2, err2 := hCall(T, "append", base, &object.Int{Value: y})
		vAssert(err2 == nil, "append-no-error")
		second := hIntsOf(r2, "append")
		vAssert(hSameInts(first, append(append([]int64{}, baseVals...), x)), "append-extends-the-array")
		vAssert(hSameInts(second, append(append([]int64{}, baseVals...), y)), "append-extends-the-array")
		vAssert(hSameInts(hIntsOf(r1, "append"), append(append([]int64{}, baseVals...), x)), "a-later-call-does-not-change-an-earlier-result")
	case "contains-nested":
		// structural equality also looks into nested arrays: an empty array is an empty array, whether it was written
		// as a literal (no element storage) or produced by slice() (storage of length 0)
		mk := func(storage int, vals ...int64) *object.Array {
			var es []object.Object
			if storage == 1 {
				es = []object.Object{}
			}
			for _, v := range vals {
				es = append(es, &object.Int{Value: v})
			}
			return &object.Array{Elements: es}
		}
		x := vInt64("x")
		inner := vChoice("inner-length", 3)
		if inner == 2 {
			// objects are equal when they have the same properties with equal values - not when one has more
			mkObj := func(n int, av int64) *object.Obj {
				o := &object.Obj{Pairs: map[string]object.Object{"a": &object.Int{Value: av}}}
				if n == 2 {
					o.Pairs["b"] = &object.Int{Value: 2}
				}
				return o
			}
			na, nb := 1+vChoice("props-a", 2), 1+vChoice("props-b", 2)
			y := vInt64("y")
			res, err := hCall(T, "contains", &object.Array{Elements: []object.Object{mkObj(na, x)}}, mkObj(nb, y))
			vAssert(err == nil, "contains-no-error")
			got, isBool := res.(*object.Bool)
			vAssert(isBool && got.Value == (na == nb && x == y), "contains-is-structural-equality")
			break
		}
		var a, b *object.Array
		if inner == 0 {
			a, b = mk(vChoice("storage-a", 2)), mk(vChoice("storage-b", 2))
		} else {
			a, b = mk(0, x), mk(1, vInt64("y"))
		}
		res, err := hCall(T, "contains", &object.Array{Elements: []object.Object{&object.Int{Value: 1}, a}}, b)
		vAssert(err == nil, "contains-no-error")
		got, isBool := res.(*object.Bool)
		vAssert(isBool, "contains-returns-a-boolean")
		if inner == 0 {
			vAssert(got.Value, "contains-is-structural-equality")
		} else {
			y := b.Elements[0].(*object.Int).Value
			vAssert(got.Value == (x == y), "contains-is-structural-equality")
		}
	case "join-strings":
		// elements that print as the empty string still take part: n elements give n-1 separators
		m := vChoice("strs", 4)
		var elems []object.Object
		want := ""
		for i := 0; i < m; i++ {
			e := []string{"", "b"}[vChoice("elem", 2)]
			elems = append(elems, &object.Str{Value: e})
			if i > 0 {
				want += "-"
			}
			want += e
		}
		res, err := hCall(T, "join", &object.Array{Elements: elems}, &object.Str{Value: "-"})
		vAssert(vEqStr(hStrResult(res, err, "join"), want), "join-puts-the-separator-between-all-elements")
	case "contains":
		x := vInt64("x")
		res, err := hCall(T, "contains", recv, &object.Int{Value: x})
		o, ok := res.(*object.Bool)
		vAssert(err == nil && ok, "contains-returns-boolean")
		want := false
		for _, v := range vals {
			if v == x {
				want = true
			}
		}
		vAssert(o.Value == want, "contains-is-structural-equality")
	case "shuffle":
		res, err := hCall(T, "shuffle", recv)
		vAssert(err == nil, "shuffle-no-error")
		got := hIntsOf(res, "shuffle")
		vAssert(len(got) == n, "shuffle-keeps-length")
		// permutation: every value occurs equally often in both
		for _, v := range vals {
			c1, c2 := 0, 0
			for _, w := range vals {
				if w == v {
					c1++
				}
			}
			for _, w := range got {
				if w == v {
					c2++
				}
			}
			vAssert(c1 == c2, "shuffle-is-a-permutation")
		}
	case "rand":
		res, err := hCall(T, "rand", recv)
		vAssert(err == nil, "rand-no-error")
		if n == 0 {
			vAssert(hIsNil(res), "rand-of-empty-is-nil")
		} else {
			o, ok := res.(*object.Int)
			vAssert(ok, "rand-returns-an-element")
			found := false
			for _, v := range vals {
				if v == o.Value {
					found = true
				}
			}
			vAssert(found, "rand-returns-an-element")
		}
	}
	vCover("checked")
	// purity: the receiver holds the same elements afterwards
	vAssert(hSameInts(hIntsOf(recv, "receiver"), vals), "receiver-unchanged")
}

// refDigits: number of decimal digits of |v|, by thresholds (independent of any formatting routine).
func refDigits(v int64) int64 {
	u := uint64(v)
	if v < 0 {
		u = -u
	}
	n := int64(1)
	for p := uint64(10); n < 20; n++ {
		if u < p {
			return n
		}
		if n == 19 {
			break
		}
		p *= 10
	}
	return 20
}

// hBoundedInt: an int64 with at most D decimal digits (D = 19: every int64). Formatting a symbolic integer costs one
// path per digit count and solver queries over nested divisions by 100, so the quick tier bounds the magnitude.
func hBoundedInt(name string) int64 {
	v := vInt64(name)
	d := vParam("D")
	if d < 19 {
		lim := int64(1)
		for i := 0; i < d; i++ {
			lim *= 10
		}
		vAssume(v > -lim && v < lim)
	}
	return v
}

var c11NumFuncs = []string{"int.len", "int.str", "int.float", "int.abs", "float.int", "float.abs", "float.ceil", "float.floor", "float.round", "bool.binary", "bool.then"}

// HarnessC11Num: numeric conversions on unconstrained int64 / finite float64 receivers with |v| < 2^52.
func HarnessC11Num() {
	name := c11NumFuncs[vChoice("func", len(c11NumFuncs))]
	switch name {
	case "int.len":
		// for every int64: len() is the number of decimal digits (the sign is not counted)
		v := hBoundedInt("v")
		res, err := hCall(object.INT_OBJ, "len", &object.Int{Value: v})
		o, ok := res.(*object.Int)
		vAssert(err == nil && ok, "len-returns-integer")
		vAssert(o.Value == refDigits(v), "len-counts-the-decimal-digits")
	case "int.str":
		v := hBoundedInt("v")
		res, err := hCall(object.INT_OBJ, "str", &object.Int{Value: v})
		out := hStrResult(res, err, "str")
		want := refDigits(v)
		if v < 0 {
			want++
			vAssert(out[0] == '-', "str-of-a-negative-number-starts-with-minus")
		}
		vAssert(int64(len(out)) == want, "str-has-one-character-per-digit-plus-sign")
		for i := 0; i < len(out); i++ {
			vAssert((out[i] >= '0' && out[i] <= '9') || (i == 0 && out[i] == '-'), "str-consists-of-decimal-digits")
		}
	case "int.float":
		v := vInt64("v")
		res, err := hCall(object.INT_OBJ, "float", &object.Int{Value: v})
		o, ok := res.(*object.Float)
		vAssert(err == nil && ok && o.Value == float64(v), "float-converts-exactly-or-rounds-to-nearest")
	case "int.abs":
		v := vInt64("v")
		vAssume(v != -9223372036854775808)
		res, err := hCall(object.INT_OBJ, "abs", &object.Int{Value: v})
		o, ok := res.(*object.Int)
		vAssert(err == nil && ok, "abs-returns-integer")
		vAssert(o.Value >= 0 && (o.Value == v || o.Value == -v), "abs-is-the-magnitude")
	case "float.int", "float.abs", "float.ceil", "float.floor", "float.round":
		v := vFloat64("v")
		vAssume(v > -4503599627370496.0 && v < 4503599627370496.0) // finite, |v| < 2^52, not NaN
		fn := name[len("float."):]
		res, err := hCall(object.FLOAT_OBJ, fn, &object.Float{Value: v})
		vAssert(err == nil, fn+"-no-error")
		if fn == "abs" {
			o, ok := res.(*object.Float)
			vAssert(ok && o.Value >= 0 && (o.Value == v || o.Value == -v), "abs-is-the-magnitude")
			break
		}
		o, ok := res.(*object.Int)
		vAssert(ok, fn+"-returns-integer")
		r := float64(o.Value)
		switch fn {
		case "int":
			if v >= 0 {
				vAssert(r <= v && v < r+1, "int-truncates-toward-zero")
			} else {
				vAssert(r >= v && v > r-1, "int-truncates-toward-zero")
			}
		case "ceil":
			vAssert(r >= v && r-1 < v, "ceil-is-the-least-integer-not-below")
		case "floor":
			vAssert(r <= v && v < r+1, "floor-is-the-greatest-integer-not-above")
		case "round":
			if v >= 0 {
				vAssert(r-0.5 <= v && v < r+0.5, "round-half-away-from-zero")
			} else {
				vAssert(r-0.5 < v && v <= r+0.5, "round-half-away-from-zero")
			}
		}
	case "bool.binary":
		b := vBool("b")
		res, err := hCall(object.BOOL_OBJ, "binary", nativeBoolToBooleanObject(b))
		o, ok := res.(*object.Int)
		vAssert(err == nil && ok, "binary-returns-integer")
		vAssert((b && o.Value == 1) || (!b && o.Value == 0), "binary-is-1-or-0")
	case "bool.then":
		b := vBool("b")
		x, y := &object.Int{Value: 1}, &object.Int{Value: 2}
		res, err := hCall(object.BOOL_OBJ, "then", nativeBoolToBooleanObject(b), x, y)
		vAssert(err == nil, "then-no-error")
		if b {
			vAssert(res == object.Object(x), "then-selects-first-when-true")
		} else {
			vAssert(res == object.Object(y), "then-selects-second-when-false")
		}
		res1, err1 := hCall(object.BOOL_OBJ, "then", nativeBoolToBooleanObject(b), x)
		vAssert(err1 == nil && (b && res1 == object.Object(x) || !b && hIsNil(res1)), "then-without-else-gives-nil")
	}
	vCover("checked")
}
