//go:build verif

package object

// HarnessC04Env: one step of the scope mechanism from an arbitrary pre-state. The pre-state is a chain of D
// environments, each holding up to two bindings whose names are symbolic bytes over {a, b, c} and whose values have a
// symbolic kind; then one Set with a symbolic name (a, b, c or the reserved name loop) and a symbolic kind. The
// post-state is compared with the scope rules of C04: a visible binding of another type makes Set fail and leaves
// everything unchanged, otherwise the innermost environment binds the name and nothing else changes.
func HarnessC04Env() {
	depth := vParam("D")
	mk := func(kind int, tag int64) Object {
		switch kind {
		case 0:
			return &Int{Value: tag}
		case 1:
			return &Str{Value: "s"}
		}
		return &Nil{}
	}
	name := func(label string) string {
		b := vByte(label)
		vAssume(b == 'a' || b == 'b' || b == 'c')
		return string([]byte{b})
	}
	type binding struct {
		name string
		obj  Object
	}
	var envs []*Env
	var model [][]binding
	var cur *Env
	for d := 0; d < depth; d++ {
		if cur == nil {
			cur = NewEnv()
		} else {
			cur = NewEnclosedEnv(cur)
		}
		var bs []binding
		n := vChoice("bindings", vParam("B")+1)
		for i := 0; i < n; i++ {
			nm := name("name")
			obj := mk(vChoice("kind", 3), int64(10*d+i))
			cur.store[nm] = obj
			// a later binding of the same name in the same environment replaces the earlier one
			replaced := false
			for j := range bs {
				if bs[j].name == nm {
					bs[j].obj = obj
					replaced = true
				}
			}
			if !replaced {
				bs = append(bs, binding{nm, obj})
			}
		}
		envs = append(envs, cur)
		model = append(model, bs)
	}
	lookup := func(from int, nm string) (Object, bool) {
		for d := from; d >= 0; d-- {
			for _, b := range model[d] {
				if b.name == nm {
					return b.obj, true
				}
			}
		}
		return nil, false
	}
	// the step
	key := "loop"
	if vChoice("reserved", 2) == 0 {
		key = name("key")
	}
	val := mk(vChoice("val.kind", 3), 99)
	old, visible := lookup(depth-1, key)
	err := cur.Set(key, val)
	vCover("stepped")
	mustFail := key == "loop" || (visible && old.Type() != val.Type())
	if mustFail {
		vAssert(err != nil, "reserved-name-or-retyping-is-refused")
	} else {
		vAssert(err == nil, "compatible-assignment-succeeds")
		got, ok := cur.Get(key)
		vAssert(ok && got == val, "innermost-environment-sees-the-new-value")
	}
	// everything else is as before: every other name from the innermost environment, every name from the outer ones
	for _, nm := range []string{"a", "b", "c", "loop"} {
		for d := 0; d < depth; d++ {
			if d == depth-1 && nm == key && !mustFail {
				continue
			}
			want, wok := lookup(d, nm)
			got, ok := envs[d].Get(nm)
			vAssert(ok == wok && (!ok || got == want), "no-other-binding-changes")
		}
	}
}
