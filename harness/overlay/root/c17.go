//go:build verif

package textwire

import (
	"net/http"

	"github.com/textwire/textwire/v2/config"
)

type vWriter struct {
	buf []byte
	hdr http.Header
}

func (w *vWriter) Header() http.Header {
	if w.hdr == nil {
		w.hdr = http.Header{}
	}
	return w.hdr
}
func (w *vWriter) Write(b []byte) (int, error) { w.buf = append(w.buf, b...); return len(b), nil }
func (w *vWriter) WriteHeader(int)             {}

func hasSub(s, sub string) bool {
	for i := 0; i+len(sub) <= len(s); i++ {
		if s[i:i+len(sub)] == sub {
			return true
		}
	}
	return false
}

const c17Page = "HEADMARK @each(v in vs)[{{ 10 / v > 0 ? 'p' : 'n' }}]@end TAILMARK"

// HarnessC17Response: Response writes the complete page or exactly one error page and leaks no detail unless
// debug mode is on; the data decides symbolically whether and where the render fails.
func HarnessC17Response() {
	vfsReset()
	debug := vBool("debug")
	errCfg := vChoice("error-page", 4) // none, valid, missing file, page that itself fails
	vfsWriteFile("templates/ok.tw", "ok {{ d }}!")
	vfsWriteFile("templates/calc.tw", c17Page)
	vfsWriteFile("templates/layouts/lay.tw", "HEADMARK [@reserve(\"r\")] TAILMARK")
	vfsWriteFile("templates/ins.tw", "@use(\"~lay\")@insert(\"r\", o.missing)")
	vfsWriteFile("templates/about.tw", "about @component(\"err\")") // the error page is also used as a partial
	vfsWriteFile("templates/components/box.tw", "<box>@slot</box>")
	vfsWriteFile("templates/slt.tw", "HEADMARK @component(\"~box\")@slot{{ nope }}@end@end TAILMARK")
	vfsWriteFile("templates/lst.tw", "HEADMARK {{ [d, nope].join(\"/\") }} TAILMARK")
	vfsWriteFile("templates/pct.tw", "HEADMARK {{ 7 % \"3\" }} TAILMARK") // the error message holds a '%' 
	// the custom error page has a variable of its own; the failed page's data uses the same name with another type
	vfsWriteFile("templates/err.tw", "{{ t = \"Custom\" }}{{ t }} oops")
	vfsWriteFile("templates/errbad.tw", "E{{ 1 / 0 }}")
	if vChoice("configured-before", 2) == 1 {
		// an earlier NewTemplate call of the same process with the opposite debug setting
		prev, perr := NewTemplate(&config.Config{TemplateDir: "templates", TemplateExt: ".tw", DebugMode: !debug})
		vAssert(perr == nil && prev != nil, "templates-load")
		if vChoice("used-before", 2) == 1 {
			// ... that has already served a failing request under that setting
			w0 := &vWriter{}
			vAssert(prev.Response(w0, "absent", nil) != nil, "failure-returns-a-non-nil-error")
		}
	}
	cfg := &config.Config{TemplateDir: "templates", TemplateExt: ".tw", DebugMode: debug}
	switch errCfg {
	case 1:
		cfg.ErrorPagePath = "err"
	case 2:
		cfg.ErrorPagePath = "missing"
	case 3:
		cfg.ErrorPagePath = "errbad"
	}
	tpl, loadErr := NewTemplate(cfg)
	vAssert(loadErr == nil && tpl != nil, "templates-load")
	reconfigured := false
	if vChoice("configured-after", 2) == 1 {
		// a later NewTemplate call of the same process with the opposite debug setting (the configuration is
		// process-wide): the response must follow one of the two settings as a whole
		c2 := *cfg
		c2.DebugMode = !debug
		next, nerr := NewTemplate(&c2)
		vAssert(nerr == nil && next != nil, "templates-load")
		reconfigured = true
	}
	var name string
	var data map[string]any
	d := string([]byte{vByte("d")})
	switch vChoice("page", 8) {
	case 7: // the fault sits in content that the page passes to a component slot
		name, data = "slt", nil
	case 6: // the fault sits in a later element of an array literal
		name, data = "lst", map[string]any{"d": d}
	case 5: // the value of an expression-form insert fails at run time
		name, data = "ins", map[string]any{"o": map[string]any{"k": 1}}
	case 4:
		name, data = "pct", nil
	case 0:
		name, data = "ok", map[string]any{"d": d}
	case 1:
		name, data = "calc", map[string]any{"vs": []any{vInt64("v0"), vInt64("v1")}, "t": 404}
	case 2: // the data itself is the fault
		name, data = "ok", map[string]any{"d": make(chan int)}
	default:
		name, data = "absent", nil
	}
	want, wantErr := tpl.String(name, data)
	if name == "ins" || name == "pct" || name == "absent" || name == "lst" || name == "slt" {
		vAssert(wantErr != nil, "page-that-fails-by-construction-fails") // not derived from the code under test
	}
	w := &vWriter{}
	err := tpl.Response(w, name, data)
	body := string(w.buf)
	vCover("responded")
	if wantErr == nil {
		vCover("success")
		vAssert(err == nil, "success-returns-nil")
		vAssert(vEqStr(body, want), "success-writes-the-complete-page")
		return
	}
	vCover("failure")
	vAssert(err != nil, "failure-returns-a-non-nil-error")
	vAssert(!hasSub(body, "HEADMARK") && !hasSub(body, "TAILMARK") && !hasSub(body, "[p]") && !hasSub(body, "[n]"), "body-contains-no-part-of-the-failed-page")
	msg, path := wantErr.Message(), wantErr.Filepath()
	if reconfigured {
		vAssert(c17Follows(body, false, errCfg, msg, path) || c17Follows(body, true, errCfg, msg, path), "response-follows-one-debug-setting-as-a-whole")
		return
	}
	switch {
	case errCfg == 1 && !debug:
		vAssert(body == "Custom oops", "custom-error-page-is-written-when-configured-and-debug-is-off")
	case (errCfg == 2 || errCfg == 3) && !debug:
		vAssert(body == "", "failing-custom-error-page-leaves-the-body-empty")
	default:
		vAssert(hasSub(body, "<!DOCTYPE html>"), "built-in-error-page-is-written")
	}
	if !debug {
		vAssert(!hasSub(body, msg), "debug-off-never-leaks-the-error-message")
		vAssert(path == "" || !hasSub(body, path), "debug-off-never-leaks-a-file-path")
	} else {
		vAssert(hasSub(body, msg), "debug-on-shows-the-message")
		vAssert(hasSub(body, path), "debug-on-shows-the-path")
	}
}

// c17Follows: the body is what the statement prescribes for a failed render under the given debug setting.
func c17Follows(body string, debug bool, errCfg int, msg, path string) bool {
	if debug {
		return hasSub(body, "<!DOCTYPE html>") && hasSub(body, msg) && hasSub(body, path)
	}
	if hasSub(body, msg) || (path != "" && hasSub(body, path)) {
		return false
	}
	switch errCfg {
	case 1:
		return body == "Custom oops"
	case 2, 3:
		return body == ""
	}
	return hasSub(body, "<!DOCTYPE html>")
}
