//go:build verif

package textwire

import "github.com/textwire/textwire/v2/config"

const c16Names = 10 // pages that the history harness draws from; the two @dump pages are used by HarnessC16Dump

type c16Result struct {
	out, err, body string
}

var c16ErrorPage = "err"
var c16Debug = false

func c16Tree() *Template {
	vfsReset()
	vfsWriteFile("templates/errbad.tw", "E{{ nope }}")
	vfsWriteFile("templates/layouts/main.tw", "L[@reserve(\"r\")]")
	vfsWriteFile("templates/components/card.tw", "<c>{{ t }}</c>")
	vfsWriteFile("templates/ok.tw", "@use(\"~main\")@insert(\"r\")@each(v in vs)@component(\"~card\", {t: v})@end@end")
	vfsWriteFile("templates/bad.tw", "head{{ 1 / d > 0 ? 'p' : 'n' }}")
	vfsWriteFile("templates/err.tw", "Custom oops")
	vfsWriteFile("templates/chain.tw", "@if(d > 5)a@elseif(d > 4)b@elseif(d > 3)c@elseif(d > 2)e@else f@end")
	vfsWriteFile("templates/dump.tw", "@dump(1)|@dump(\"s\")")
	vfsWriteFile("templates/dumpbad.tw", "@dump(d){{ d == 0 ? nope : \"\" }}")
	vfsWriteFile("templates/shuf.tw", "{{ vs.shuffle().len() }}{{ vs.shuffle().contains(\"z\") }}")
	// fails in the second pass of either loop for some divisors, after the first pass has produced text
	vfsWriteFile("templates/rows.tw", "@each(v in vs)[{{ v }}{{ d == loop.index ? nope : \"p\" }}]@end@for(i = 0; i < 3; i++)({{ d == i + 10 ? nope : \"q\" }})@end")
	vfsWriteFile("plain.txt", "file {{ 8 / d > 0 ? 'p' : 'n' }}") // fails for d == 0, like the string evaluation
	vfsWriteFile("templates/prof.tw", "<{{ u.name }}>")
	vfsWriteFile("templates/setter.tw", "{{ h = \"H\" }}[{{ h }}]")
	vfsWriteFile("templates/reader.tw", "({{ h }})")
	tpl, err := NewTemplate(&config.Config{TemplateDir: "templates", TemplateExt: ".tw", ErrorPagePath: c16ErrorPage, DebugMode: c16Debug})
	vAssert(err == nil && tpl != nil, "tree-loads")
	return tpl
}

// c16Op runs one of the rendering operations; name and data are chosen by the caller.
func c16Op(tpl *Template, op, name int, d int64, s string) c16Result {
	names := []string{"ok", "bad", "missing", "prof", "prof", "setter", "reader", "rows", "shuf", "chain", "dump", "dumpbad"}
	data := map[string]any{"vs": []any{s, "z"}, "d": d}
	switch name {
	case 3:
		data["u"] = struct{ Name string }{s} // reachable as u.name through the capitalised spelling
		if d%2 == 0 {
			data["u"] = c16LocalUser1(s)
		}
	case 4:
		data["u"] = map[string]string{"name": s}
		if d%2 == 0 {
			data["u"] = c16LocalUser2(s) // a second local type that prints the same name as the one of case 3
		}
	case 5, 6:
		data = nil // renders without data
	}
	cwd := vfsCwd()
	strip := func(t string) string { // make paths comparable between the engine's and the native directory
		out := ""
		for i := 0; i < len(t); {
			if i+len(cwd) <= len(t) && t[i:i+len(cwd)] == cwd {
				out += "<cwd>"
				i += len(cwd)
				continue
			}
			out += t[i : i+1]
			i++
		}
		return out
	}
	switch op {
	case 0:
		out, ferr := tpl.String(names[name], data)
		if name == 3 || name == 4 {
			// absolute expectation (a process-wide cache is shared by the baseline and the run under test, so comparing
			// the two cannot see it): the profile page shows the name of the value it was given, whatever its Go type
			vAssert(ferr == nil && vEqStr(out, "<"+s+">"), "page-shows-the-data-of-this-call")
		}
		if ferr != nil {
			return c16Result{err: strip(ferr.String())}
		}
		return c16Result{out: out}
	case 1:
		w := &vWriter{}
		err := tpl.Response(w, names[name], data)
		r := c16Result{body: strip(string(w.buf))}
		if err != nil {
			r.err = strip(err.Error())
			if c16Debug {
				// in debug mode the page written for a failure shows that failure: a result served from an earlier
				// call (of this or of another Template) would show another one
				msg := err.Error()
				for i := 0; i < len(msg); i++ {
					if msg[i] == '\n' {
						msg = msg[i+1:]
						break
					}
				}
				vAssert(hasSub(string(w.buf), msg), "debug-page-shows-the-failure-it-reports")
			}
		}
		return r
	case 2:
		out, err := EvaluateString("str {{ 4 / d > 0 ? 'p' : 'n' }}", data)
		if err != nil {
			return c16Result{err: strip(err.Error())}
		}
		return c16Result{out: out}
	default:
		out, err := EvaluateFile(cwd+"/plain.txt", data)
		if err != nil {
			return c16Result{err: strip(err.Error())}
		}
		return c16Result{out: out}
	}
}

// c16Snapshot renders everything the statement says must stay unchanged into one comparable string: the
// configuration, the registry sizes and the source form of every loaded program.
func c16Snapshot(tpl *Template) string {
	out := userConfig.TemplateDir + "|" + userConfig.TemplateExt + "|" + userConfig.ErrorPagePath + "|" + b01(userConfig.DebugMode) + "|"
	out += string([]byte{byte('0' + len(customFunc.Str) + len(customFunc.Arr) + len(customFunc.Int) + len(customFunc.Float) + len(customFunc.Bool))})
	for _, n := range []string{"ok", "bad", "err", "prof", "setter", "reader", "rows", "shuf", "chain", "dump", "dumpbad"} {
		if p, ok := tpl.programs[n]; ok {
			out += "|" + n + "=" + p.String()
		}
	}
	return out
}

func c16Same(a, b c16Result) bool {
	return vEqStr(a.out, b.out) && vEqStr(a.err, b.err) && vEqStr(a.body, b.body)
}

// HarnessC16History: the result of a probe operation is the same whatever operations ran before it, and no
// operation stores to the loaded templates, the configuration, the registry or package state.
func HarnessC16History() {
	cfgChoice := vChoice("error-page", 3)
	c16ErrorPage = []string{"err", "errbad", "err"}[cfgChoice]
	c16Debug = cfgChoice == 2 // debug mode: the built-in page shows the failure's own message, path and line
	fresh := c16Tree() // the probe on this freshly loaded Template is the baseline
	tpl := c16Tree()   // the history and the second probe run on this one
	s := string([]byte{vByte("s")})
	// the divisor is any int64: the solver decides whether renders of bad / EvaluateString fail (d == 0)
	d := vInt64("d")
	probeOp, probeName := vChoice("probe.op", 4), 0
	if probeOp < 2 {
		probeName = vChoice("probe.name", vParam("P"))
	}
	vFreeze()
	vShare(tpl) // the loaded Template and every AST it holds
	snap := c16Snapshot(tpl)
	base := c16Op(fresh, probeOp, probeName, d, s)
	h := vChoice("history", vParam("H")+1)
	for i := 0; i < h; i++ {
		op, name := vChoice("op", 4), 0
		if op < 2 {
			name = vChoice("name", vParam("P"))
		}
		hd := vInt64("hd")
		c16Op(tpl, op, name, hd, s)
	}
	again := c16Op(tpl, probeOp, probeName, d, s)
	vCover("probed")
	vAssert(c16Same(base, again), "result-does-not-depend-on-earlier-calls")
	vAssert(c16Snapshot(tpl) == snap, "rendering-leaves-templates-and-configuration-unchanged")
	if vSharedWrites() == 0 {
		vCover("engine-saw-no-store-to-shared-state")
	} else {
		vCover("engine-saw-stores-to-shared-state")
	}
}


func c16LocalUser1(n string) any {
	type user struct {
		Name string
		Age  int
	}
	return user{n, 1}
}

func c16LocalUser2(n string) any {
	type user struct {
		Age  int
		Name string
	}
	return user{2, n}
}


// HarnessC16Dump: a page with @dump renders the same after a render that failed behind an @dump as it does first.
func HarnessC16Dump() {
	c16ErrorPage, c16Debug = "err", false
	fresh := c16Tree()
	tpl := c16Tree()
	base := c16Op(fresh, 0, 10, 1, "s")
	vAssert(base.err == "", "dump-page-renders")
	switch vChoice("history", 4) {
	case 1:
		r := c16Op(tpl, 0, 11, 0, "s") // fails behind its @dump
		vAssert(r.err != "", "faulty-template-fails")
	case 2:
		r := c16Op(tpl, 1, 11, 0, "s")
		vAssert(r.err != "", "faulty-template-fails")
	case 3:
		_, ferr := EvaluateString("@dump(1){{ nope }}", nil)
		vAssert(ferr != nil, "faulty-template-fails")
	}
	var again c16Result
	if vChoice("probe", 2) == 0 {
		again = c16Op(tpl, 0, 10, 1, "s")
	} else {
		out, err := EvaluateString("@dump(1)|@dump(\"s\")", nil)
		vAssert(err == nil, "dump-page-renders")
		again = c16Result{out: out}
	}
	vCover("probed")
	vAssert(c16Same(base, again), "result-does-not-depend-on-earlier-calls")
}


type c16Box struct {
	Name  string
	Extra any
}

var c16SharedUser = &struct{ Name string }{"shared"}

// HarnessC16Pointer: the same Go pointer handed to several calls converts the same way every time, also after a call
// whose data binding failed half way.
func HarnessC16Pointer() {
	c16ErrorPage, c16Debug = "err", false
	tpl := c16Tree()
	good := map[string]any{"u": c16SharedUser}
	switch vChoice("history", 6) {
	case 5:
		// the value behind a pointer holds something a template cannot show; the caller repairs it (or not) and repeats the call
		// with the same pointer
		box := &c16Box{Name: "boxed", Extra: make(chan int)}
		_, ferr := tpl.String("prof", map[string]any{"u": box})
		vAssert(ferr != nil, "faulty-template-fails")
		if vChoice("repaired", 2) == 1 {
			box.Extra = nil
			o, err := tpl.String("prof", map[string]any{"u": box})
			vAssert(err == nil && o == "<boxed>", "page-shows-the-data-of-this-call")
		} else {
			_, ferr2 := tpl.String("prof", map[string]any{"u": box})
			vAssert(ferr2 != nil && ferr2.String() == ferr.String(), "result-does-not-depend-on-earlier-calls")
		}
	case 1:
		_, ferr := tpl.String("prof", map[string]any{"u": c16SharedUser, "zchan": make(chan int)})
		vAssert(ferr != nil, "faulty-template-fails")
	case 2:
		_, ferr := EvaluateString("{{ u.name }}", map[string]any{"u": c16SharedUser, "loop": 1, "zz": func() {}})
		vAssert(ferr != nil, "faulty-template-fails")
	case 3:
		o, ferr := tpl.String("prof", good)
		vAssert(ferr == nil && o == "<shared>", "page-shows-the-data-of-this-call")
	case 4:
		w := &vWriter{}
		vAssert(tpl.Response(w, "prof", map[string]any{"u": c16SharedUser, "zchan": make(chan int)}) != nil, "faulty-template-fails")
	}
	out, err := tpl.String("prof", map[string]any{"u": c16SharedUser, "v": c16SharedUser})
	vCover("probed")
	vAssert(err == nil && out == "<shared>", "page-shows-the-data-of-this-call")
	out2, err2 := EvaluateString("{{ a.name }}|{{ b.name }}", map[string]any{"a": c16SharedUser, "b": c16SharedUser})
	vAssert(err2 == nil && out2 == "shared|shared", "page-shows-the-data-of-this-call")
}
