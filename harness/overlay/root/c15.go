//go:build verif

package textwire

import "sync"

// HarnessC15Concurrent: two rendering entry points with their own data.
// Symbolic side (sufficient condition, decided on every path): after the templates are loaded and frozen, neither
// call performs a plain store to state that outlives it, so concurrent calls have no conflicting accesses and each
// result is a function of its arguments. Native side (replay): the two calls run concurrently under the race
// detector and each result is compared with its solo result.
func HarnessC15Concurrent() {
	c16ErrorPage, c16Debug = "err", false
	fresh := c16Tree() // serves the second call alone: its result is the second call's solo result
	tpl := c16Tree()
	s := string([]byte{vByte("s")})
	d1 := vInt64("d1")
	d2 := vInt64("d2")
	op1, n1 := vChoice("op1", 4), 0
	if op1 < 2 {
		n1 = vChoice("name1", c15Names)
	}
	op2, n2 := vChoice("op2", 4), 0
	if op2 < 2 {
		n2 = vChoice("name2", c15Names)
	}
	alone2 := c16Op(fresh, op2, n2, d2, s)
	vFreeze()
	vShare(tpl) // the loaded Template and every AST it holds
	vPhase(1)
	solo1 := c16Op(tpl, op1, n1, d1, s)
	vPhase(2)
	solo2 := c16Op(tpl, op2, n2, d2, s)
	vPhase(0)
	vCover("solo-results")
	if vNative() {
		vAssert(c16Same(solo2, alone2), "a-call-that-runs-after-another-returns-its-solo-result")
		for i := 0; i < 60; i++ {
			t := tpl
			if i < 25 {
				t = c16Tree() // a freshly loaded Template: the two calls are the first ones it serves
			}
			var a, b c16Result
			var wg sync.WaitGroup
			wg.Add(2)
			go func() { defer wg.Done(); a = c16Op(t, op1, n1, d1, s) }()
			go func() { defer wg.Done(); b = c16Op(t, op2, n2, d2, s) }()
			wg.Wait()
			vAssert(c16Same(a, solo1) && c16Same(b, solo2), "concurrent-call-returns-its-solo-result")
		}
		return
	}
	// one legal schedule of the two calls is "first one, then the other": the second call returns what it returns alone
	vAssert(c16Same(solo2, alone2), "a-call-that-runs-after-another-returns-its-solo-result")
	// the pair is free of conflicting accesses: no location stored to by one call is read or stored to by the other
	vAssert(vPhaseConflicts() == 0, "the-two-calls-have-no-conflicting-access-to-shared-state")
	if vSharedWrites() == 0 {
		vCover("engine-saw-no-store-to-shared-state")
	}
	vAssert(vSharedAtomicConflicts() == 0, "no-entry-point-reads-state-that-another-writes-atomically")
}

// c15Names: the pages of the shared tree that the concurrency check uses (the two @dump pages serve C16 only).
const c15Names = 10
