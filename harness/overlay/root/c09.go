//go:build verif

package textwire

import (
	"github.com/textwire/textwire/v2/ctx"
	"github.com/textwire/textwire/v2/evaluator"
	"github.com/textwire/textwire/v2/fail"
	"github.com/textwire/textwire/v2/object"
)

type c09T struct {
	N int
	S string
	p int
}

type c09Str struct{ N int }

func (s c09Str) String() string { return "str" }

var c09Ints = []int64{0, 1, -1, 7, -9223372036854775808, 9223372036854775807}
var c09Floats = []float64{0, 1.5, -2.5, 1e300}

// symData returns a Go value of an enumerated kind with symbolic payload where printing allows it.
var c09ConcreteStrings = false

func symData(name string, depth int) any {
	nk := 22
	if depth <= 0 {
		nk = 9
	}
	switch vChoice(name+".kind", nk) {
	case 0:
		return c09Ints[vChoice(name+".int", len(c09Ints))]
	case 1:
		if c09ConcreteStrings {
			return []string{"", "a\"<\n", "\xff\xfe"}[vChoice(name+".str", 3)]
		}
		return symBytesAny(name, vChoice(name+".len", 3))
	case 2:
		return vBool(name)
	case 3:
		return nil
	case 4:
		return c09Floats[vChoice(name+".float", len(c09Floats))]
	case 5:
		return (*int)(nil)
	case 6:
		return (*c09T)(nil)
	case 7:
		return make(chan int)
	case 8:
		return c09T{N: 3, S: "s"}
	case 9:
		return []any{symData(name+".0", depth-1)}
	case 10:
		return map[string]any{"k": symData(name+".k", depth-1), "": 1}
	case 11:
		return []any{}
	case 12:
		return map[string]any{"k": func() {}}
	case 13:
		return [2]int{1, 2}
	case 14:
		return []any{[0]string{}, complex(1, 2)}
	case 19: // nil pointers whose type has a value-receiver String method (time.Time-like), top level and in a field
		return (*c09Str)(nil)
	case 20:
		return []any{struct {
			DeletedAt *c09Str
			D         c09Str
		}{nil, c09Str{3}}}
	case 17: // a struct whose exported pointer field is nil, directly and behind a pointer inside a slice
		return struct {
			P *c09T
			N int
		}{nil, 1}
	case 18:
		return []any{&struct {
			P  *c09T
			PP **c09T
			I  any
		}{}}
	case 15:
		return struct {
			*c09T
			Name string
		}{nil, "n"}
	case 16:
		return []any{&struct {
			*c09T
			N int
		}{&c09T{N: 1}, 2}}
	}
	return struct{ P *[3]int }{&[3]int{1, 2, 3}}
}

func symBytesAny(name string, n int) string {
	b := make([]byte, n)
	for i := range b {
		b[i] = vByte(name)
	}
	return string(b)
}

var c09Templates = []string{
	"{{ a + b }}", "{{ a - b }}", "{{ a * b }}", "{{ a / b }}", "{{ a % b }}",
	"{{ a == b }}", "{{ a != b }}", "{{ a < b }}", "{{ a >= b }}",
	"{{ -a }}", "{{ !a }}", "{{ a++ }}", "{{ a-- }}",
	"{{ a[b] }}", "{{ a.k }}", "{{ a.k.j }}", "{{ a[\"\"] }}", "{{ a[b].k }}",
	"{{ a.len() }}", "{{ a.nope() }}", "{{ a.k() }}",
	"{{ a ? b : 1 }}", "{{ x = a; x = b; x }}", "{{ loop = a }}",
	"@if(a)y@elseif(b)z@end",
	"@each(v in a){{ v }}@end", "@each(v in a)@else e@end", "@each(a in b){{ a }}@end",
	"@for(i = 0; i < 2; i++){{ a }}@end", "@for(a; b; a)x@break@end", "@for(a; false; a)x@end", "@for(a; a < 1; a++)x@break@end", "@for(a; a == \"\"; a + \"x\")y@break@end",
	"@for(; false; )x@end", "@for(i = 0; ; i++)@break@end", "@for(i = 0; i < 1; )@break@end", "@for(;;)@break@end",
	"@for(i = 0; i < 3; i++)@breakIf(b)x@end",
	"@for(i = 0; ; i++)@break@else e@end", "@for(;;)@break@else e@end", "@for(; false; )x@else e@end", "@for(i = 0; i < 1; )@break@else e@end", "@for(; a; )@break@else e@end",
	"@each(v in [1, 2])@continueIf(a)x@end",
	"@dump(a, b)", "{{ [a, b] }}", "{{ {x: a, y: b} }}", "{{ {a, b}.a }}",
	"{{ [a][0] }}", "{{ [a][b] }}", "{{ a.at(b) }}", "{{ a.slice(b) }}", "{{ a.then(b) }}",
	"{{ \"s\" + a }}", "{{ a + 1 }}", "{{ 1.5 + a }}", "{{ nil == a }}",
	"@component(\"x\")", "@component(\"x\", {k: a})", "@component(\"~x\")@slot y{{ a }}@end@end", "@use(\"~l\")x", "@insert(\"r\", a)", "@reserve(\"r\")",
}

// renderChecked runs the real pipeline and returns output or the structured error.
func renderChecked(src string, data map[string]any) (string, *fail.Error, bool) {
	prog, errs := parseStr(src)
	if len(errs) != 0 {
		return "", errs[0], false
	}
	env, envErr := object.EnvFromMap(data)
	if envErr != nil {
		return "", envErr, false
	}
	ev := evaluator.New(ctx.NewContext("", customFunc, userConfig))
	res := ev.Eval(prog, env)
	if res.Is(object.ERR_OBJ) {
		return "", res.(*object.Error).Err, true
	}
	return res.String(), nil, false
}

// HarnessC09Constructs: every construct skeleton with operands of every kind returns output or an error whose
// line is the line of the construct; it never panics.
func HarnessC09Constructs() {
	tpl := c09Templates[vChoice("template", len(c09Templates))]
	lead := vChoice("leading-newlines", 2)
	src := tpl
	if lead == 1 {
		src = "\n\n" + tpl
	}
	c09ConcreteStrings = tpl == "@dump(a, b)" // %q formatting of symbolic bytes has no concrete length
	data := map[string]any{"a": symData("a", 1)}
	if vChoice("bind-b", 2) == 1 {
		data["b"] = symData("b", 0)
	}
	_, err, duringEval := renderChecked(src, data)
	vCover("returned")
	if err != nil && duringEval {
		vCover("evaluation-error")
		vAssert(err.Line() == uint(1+2*lead), "evaluation-error-carries-line-of-construct")
	}
}


// HarnessC09Custom: a custom function registered for one receiver type and called on a receiver of every type
// (literal or from the data) gives output or an error, never a panic.
func HarnessC09Custom() {
	var rerr error
	reg := vChoice("registered-for", 6)
	switch reg {
	case 0:
		rerr = RegisterStrFunc("cf", func(s string, args ...any) string { return s + "!" })
	case 1:
		rerr = RegisterArrFunc("cf", func(a []any, args ...any) []any { return a })
	case 2:
		rerr = RegisterIntFunc("cf", func(i int, args ...any) int { return i + 1 })
	case 3:
		rerr = RegisterFloatFunc("cf", func(f float64, args ...any) float64 { return f + 1 })
	case 4:
		rerr = RegisterBoolFunc("cf", func(b bool, args ...any) bool { return !b })
	}
	vAssert(rerr == nil, "registration-succeeds")
	recv := vChoice("receiver", 7)
	lits := []string{"\"s\"", "[1]", "5", "2.5", "true", "nil", "{k: 1}"}
	vals := []any{"s", []any{1}, 5, 2.5, true, nil, map[string]any{"k": 1}}
	var out string
	var err *fail.Error
	if vChoice("from-data", 2) == 1 {
		out, err, _ = renderChecked("{{ v.cf(1, \"x\") }}", map[string]any{"v": vals[recv]})
	} else {
		out, err, _ = renderChecked("{{ "+lits[recv]+".cf(1, \"x\") }}", nil)
	}
	vCover("returned")
	if recv == reg && reg < 5 {
		vAssert(err == nil, "registered-function-is-callable")
	} else {
		vAssert(err != nil && out == "", "function-not-registered-for-that-type-is-an-error")
		vCover("evaluation-error")
	}
}


var c09Faults = []string{
	"{{ [1, 1 % 0] }}", "{{ [1, 2, nope] }}", "{{ [1].append(2, nope) }}", "{{ \"s\".at(0, 1 / 0) }}", "{{ {a: 1, b: 1 / 0} }}",
	"{{ {a: 1, b: nope}.a }}", "{{ [[1, nope]] }}", "{{ \"s\".then(1, nope) }}", "{{ [1, 2][nope] }}",
	"@component(\"x\", {a: 1, b: nope})", "{{ x = [1, 1 / 0] }}", "@each(v in [1, 1 % 0])x@end", "{{ 1 + [1, nope][0] }}",
}

// HarnessC09Faults: a fault in a later array element, call argument or object entry is reported as an error with its
// line, never rendered as text and never dropped. (@dump is left out: it dumps whatever its arguments evaluate to,
// an error object included.)
func HarnessC09Faults() {
	src := c09Faults[vChoice("template", len(c09Faults))]
	lead := []string{"", "\n", "a\n\nb"}[vChoice("leading-lines", 3)]
	out, err, _ := renderChecked(lead+src, nil)
	vCover("returned")
	vAssert(err != nil && out == "", "fault-in-a-later-element-is-reported")
	vCover("evaluation-error")
	vAssert(err.Line() == uint(1+countNL(lead)), "error-carries-the-line-of-the-construct")
}

func countNL(s string) int {
	n := 0
	for i := 0; i < len(s); i++ {
		if s[i] == '\n' {
			n++
		}
	}
	return n
}
