//go:build verif

package textwire

import (
	"reflect"
	"strconv"

	"github.com/textwire/textwire/v2/object"
)

type C12Emb struct{ Q int }

type c12Inner struct {
	N int32
	S string
	p int
}

type c12T struct {
	I      int64
	U8     uint8
	F32    float32
	B      bool
	S      string
	P      *c12Inner
	Sub    c12Inner
	L      []int16
	M      map[string]uint16
	A      any
	PP     **c12Inner
	LP     []*c12Inner
	hidden string
	C12Emb
}

type c12Leaves struct {
	i      int64
	u8     uint8
	b      bool
	s, s2  string
	n      int32
	l0, l1 int16
	mk     uint16
	pNil   bool
	aKind  int
	ppNil  int // 0: PP nil, 1: *PP nil, 2: both set
	lpNil  bool
}

var c12Int64s = []int64{0, -1, 42, -9223372036854775808, 9223372036854775807}

// c12SymLeaves: symbolic strings and booleans; one of the enumerated leaves (number boundary values, nil-ness of a
// pointer/interface position) takes a non-default value per path.
func c12SymLeaves() c12Leaves {
	lv := c12Leaves{i: 42, u8: 7, b: vBool("b"), s: symBytesAny("s", 1), s2: symBytesAny("s2", 1), n: 5, l0: 3, l1: 9, mk: 65535,
		aKind: 1, ppNil: 2}
	switch vChoice("vary", 9) {
	case 0:
		lv.i = c12Int64s[vChoice("i", len(c12Int64s))]
	case 1:
		lv.u8 = []uint8{0, 255}[vChoice("u8", 2)]
	case 2:
		lv.s = symBytesAny("s", vChoice("s.len", 3))
	case 3:
		lv.n = -2147483648
	case 4:
		lv.l0 = -32768
	case 5:
		lv.pNil = true
	case 6:
		lv.aKind = []int{0, 2, 3, 4}[vChoice("a.kind", 4)]
	case 7:
		lv.ppNil = vChoice("pp", 2)
	case 8:
		lv.lpNil = true
	}
	return lv
}

func c12Build(lv c12Leaves) c12T {
	inner := c12Inner{N: lv.n, S: lv.s2, p: 1}
	t := c12T{I: lv.i, U8: lv.u8, F32: 1.5, B: lv.b, S: lv.s, Sub: inner, L: []int16{lv.l0, lv.l1},
		M: map[string]uint16{"k": lv.mk, "K": 7, "": 3}, hidden: "h", C12Emb: C12Emb{Q: 6}}
	if !lv.pNil {
		in2 := inner
		t.P = &in2
	}
	switch lv.aKind {
	case 0:
		t.A = nil
	case 1:
		t.A = lv.s
	case 2:
		t.A = []any{lv.i, lv.s}
	case 3:
		t.A = map[string]any{"z": lv.b}
	case 4:
		t.A = &inner
	}
	switch lv.ppNil {
	case 1:
		var np *c12Inner
		t.PP = &np
	case 2:
		in3 := inner
		p3 := &in3
		t.PP = &p3
	}
	if lv.lpNil {
		t.LP = []*c12Inner{nil}
	} else {
		in4 := inner
		t.LP = []*c12Inner{&in4}
	}
	return t
}

func b2s(b bool) string {
	if b {
		return "1"
	}
	return "0"
}

// HarnessC12Shape: a struct value of the harness's type family (all leaves symbolic or from boundary sets, nil-ness
// of every pointer/interface position chosen) is visible through dot/index paths and prints as the equal literal.
func HarnessC12Shape() {
	lv := c12SymLeaves()
	v := c12Build(lv)
	var data map[string]any
	switch vChoice("top", 3) {
	case 0:
		data = map[string]any{"v": v}
	case 1:
		data = map[string]any{"v": &v}
	default:
		pv := &v
		data = map[string]any{"v": &pv}
	}
	type acc struct {
		path string
		want string
		ok   bool
	}
	n32 := strconv.FormatInt(int64(lv.n), 10)
	cases := []acc{
		{"v.I", strconv.FormatInt(lv.i, 10), true},
		{"v.i", strconv.FormatInt(lv.i, 10), true},
		{"v[\"I\"]", strconv.FormatInt(lv.i, 10), true},
		{"v.U8", strconv.Itoa(int(lv.u8)), true},
		{"v.F32", "1.5", true},
		{"v.B", b2s(lv.b), true},
		{"v.S", lv.s, true},
		{"v.s", lv.s, true},
		{"v.Sub.N", n32, true},
		{"v.sub.s", lv.s2, true},
		{"v.L[0]", strconv.Itoa(int(lv.l0)), true},
		{"v.L[1]", "9", true},
		{"v.L[2]", "", true},
		{"v.M.k", "65535", true},
		{"v.M[\"k\"]", "65535", true},
		{"v.M.K", "7", true}, // a map may hold two keys that differ only in the case of the first letter
		{"v.M[\"K\"]", "7", true},
		{"v.M[\"\"]", "3", true}, // the empty string is a key like any other
		{"v.C12Emb.Q", "6", true},
		{"v.Q", "", false}, // a field of an embedded struct is reached through the embedded field, not promoted
		{"v.hidden", "", false},
		{"v.Sub.p", "", false},
		{"v.nope", "", false},
	}
	if lv.pNil {
		cases = append(cases, acc{"v.P", "", true})
	} else {
		cases = append(cases, acc{"v.P.N", n32, true}, acc{"v.P.S", lv.s2, true})
	}
	switch lv.aKind {
	case 0:
		cases = append(cases, acc{"v.A", "", true})
	case 1:
		cases = append(cases, acc{"v.A", lv.s, true})
	case 2:
		cases = append(cases, acc{"v.A[0]", strconv.FormatInt(lv.i, 10), true}, acc{"v.A[1]", lv.s, true})
	case 3:
		cases = append(cases, acc{"v.A.z", b2s(lv.b), true})
	case 4:
		cases = append(cases, acc{"v.A.N", n32, true})
	}
	switch lv.ppNil {
	case 0, 1:
		cases = append(cases, acc{"v.PP", "", true})
	case 2:
		cases = append(cases, acc{"v.PP.N", n32, true})
	}
	if lv.lpNil {
		cases = append(cases, acc{"v.LP[0]", "", true})
	} else {
		cases = append(cases, acc{"v.LP[0].S", lv.s2, true})
	}
	c := cases[vChoice("path", len(cases))]
	out, err := EvaluateString("<{{ "+c.path+" }}>", data)
	vCover("rendered")
	if c.ok {
		vAssert(err == nil, "reachable-path-renders")
		vAssert(vEqStr(out, "<"+c.want+">"), "value-prints-as-the-equal-literal")
	} else {
		vAssert(err != nil && out == "", "unexported-or-missing-field-is-not-reachable")
	}
	// the caller's data is never modified
	vAssert(reflect.DeepEqual(v, c12Build(lv)), "data-unchanged-by-rendering")
}

// HarnessC12Unsupported: a value of any other kind, at any depth, makes the call return an error.
func HarnessC12Unsupported() {
	var bad any
	switch vChoice("kind", 5) {
	case 0:
		bad = make(chan int)
	case 1:
		bad = func() {}
	case 2:
		bad = complex(1, 2)
	case 3:
		bad = [2]int{1, 2}
	default:
		bad = uintptr(3)
	}
	var data map[string]any
	switch vChoice("depth", 6) {
	case 0:
		data = map[string]any{"v": bad}
	case 1:
		data = map[string]any{"v": []any{1, bad}}
	case 2:
		data = map[string]any{"v": map[string]any{"k": bad}}
	case 3:
		data = map[string]any{"v": struct{ X any }{bad}}
	case 4:
		data = map[string]any{"v": &bad}
	default:
		data = map[string]any{"v": []any{map[string]any{"k": []any{bad}}}}
	}
	data["s"] = symBytesAny("s", 1)
	out, err := EvaluateString("x{{ s }}", data)
	vCover("returned")
	vAssert(err != nil && out == "", "unsupported-kind-at-any-depth-is-an-error")
}

// HarnessC12Numbers: every integer of every width (unsigned ones within the int64 range) and every float becomes the
// template number of the same value. The value is symbolic over its whole range; the result object is inspected
// directly because formatted symbolic numbers have no concrete length.
func HarnessC12Numbers() {
	v := vInt64("v")
	u := vUint64("u")
	vAssume(u <= 9223372036854775807)
	var got object.Object
	var want int64
	switch vChoice("type", 11) {
	case 0:
		got, want = object.NativeToObject(v), v
	case 1:
		got, want = object.NativeToObject(int(v)), v
	case 2:
		got, want = object.NativeToObject(int32(v)), int64(int32(v))
	case 3:
		got, want = object.NativeToObject(int16(v)), int64(int16(v))
	case 4:
		got, want = object.NativeToObject(int8(v)), int64(int8(v))
	case 5:
		got, want = object.NativeToObject(u), int64(u)
	case 6:
		got, want = object.NativeToObject(uint(u)), int64(u)
	case 7:
		got, want = object.NativeToObject(uint32(u)), int64(uint32(u))
	case 8:
		got, want = object.NativeToObject(uint16(u)), int64(uint16(u))
	case 9:
		got, want = object.NativeToObject(uint8(u)), int64(uint8(u))
	default:
		// through a pointer and an interface slot
		p := &u
		got, want = object.NativeToObject([]any{&p}), int64(u)
		arr, ok := got.(*object.Array)
		vAssert(ok && len(arr.Elements) == 1, "slice-of-pointers-becomes-an-array")
		got = arr.Elements[0]
	}
	vCover("converted")
	i, ok := got.(*object.Int)
	vAssert(ok, "integer-of-any-width-becomes-a-template-integer")
	vAssert(i.Value == want, "integer-keeps-its-value")
	// numbers print as the equal literal would: base-10 digits of the value (magnitude bounded by the parameter D,
	// 19 = every int64, because formatting a symbolic integer costs a path per digit count)
	if d := vParam("D"); d < 19 {
		lim := int64(1)
		for i := 0; i < d; i++ {
			lim *= 10
		}
		vAssume(want > -lim && want < lim)
	}
	out, err := EvaluateString("<{{ n }}>", map[string]any{"n": want})
	vAssert(err == nil && vEqStr(out, "<"+strconv.FormatInt(want, 10)+">"), "integer-prints-in-base-10")
	f := vFloat64("f")
	fo, ok := object.NativeToObject(f).(*object.Float)
	vAssert(ok && (fo.Value == f || (fo.Value != fo.Value && f != f)), "float-keeps-its-value")
}


type C12PEmb struct{ Z int }

// HarnessC12Embedded: structs that embed a pointer type, nil or not.
func HarnessC12Embedded() {
	type outer struct {
		*C12PEmb
		N int
	}
	var data map[string]any
	var src, want string
	switch vChoice("shape", 4) {
	case 0:
		data, src, want = map[string]any{"v": outer{nil, 2}}, "{{ v.N }}|{{ v.C12PEmb }}", "2|"
	case 1:
		data, src, want = map[string]any{"v": outer{&C12PEmb{7}, 2}}, "{{ v.N }}|{{ v.C12PEmb.Z }}", "2|7"
	case 2:
		data, src, want = map[string]any{"v": []any{&outer{nil, 3}}}, "{{ v[0].N }}", "3"
	default:
		data, src, want = map[string]any{"v": outer{&C12PEmb{7}, 2}}, "{{ v }}", ""
	}
	out, err := EvaluateString(src, data)
	vCover("rendered")
	vAssert(err == nil, "reachable-path-renders")
	if want != "" {
		vAssert(out == want, "value-prints-as-the-equal-literal")
	} else {
		// the printed object has exactly the two fields of the Go value
		vAssert(hasSub(out, "N: 2") && hasSub(out, "C12PEmb: ") && !hasSub(out, "Z: 7, Z") && countSub(out, "Z: 7") == 1, "object-has-the-shape-of-the-go-value")
	}
}

func countSub(s, sub string) int {
	n := 0
	for i := 0; i+len(sub) <= len(s); i++ {
		if s[i:i+len(sub)] == sub {
			n++
		}
	}
	return n
}

type c12Lang string

type c12Kw struct {
	In    int
	Nil   string
	True  bool
	Else  int
	Plain int
}

// HarnessC12Keywords: a field, map key or data key that equals a keyword up to letter case is an ordinary name.
func HarnessC12Keywords() {
	s := symBytesAny("s", 1)
	v := c12Kw{In: 4, Nil: s, True: true, Else: 7, Plain: 1}
	data := map[string]any{"v": v, "m": map[string]any{"In": 5, "False": s}, "In": 6, "Nil": s}
	// maps whose key type is a named string type are string-keyed maps too
	data["lm"] = map[c12Lang]string{"en": s, "de": "x"}
	data["w"] = &struct{ L map[c12Lang]string }{map[c12Lang]string{"en": s}}
	data["ls"] = []map[c12Lang]int{{"en": 3}}
	cases := [][2]string{
		{"{{ lm.en }}", s}, {"{{ lm[\"de\"] }}", "x"}, {"{{ w.L.en }}", s}, {"{{ ls[0].en }}", "3"},
		{"{{ v.In }}", "4"}, {"{{ v.Nil }}", s}, {"{{ v.True }}", "1"}, {"{{ v.Else }}", "7"}, {"{{ v.Plain }}", "1"},
		{"{{ m.In }}", "5"}, {"{{ m.False }}", s}, {"{{ In }}", "6"}, {"{{ Nil }}", s}, {"{{ v[\"In\"] }}", "4"},
	}
	c := cases[vChoice("case", len(cases))]
	out, err := EvaluateString(c[0], data)
	vCover("rendered")
	vAssert(err == nil, "reachable-path-renders")
	vAssert(vEqStr(out, c[1]), "value-prints-as-the-equal-literal")
}

type c12RowA struct {
	Title string
	N     int
}

type c12RowB struct {
	N     int
	Title string
	Extra bool
}

func c12LocalRow1(t string) any {
	type row struct {
		Title string
		N     int
	}
	return row{t, 3}
}

func c12LocalRow2(t string) any {
	type row struct {
		N     int
		Title string
	}
	return row{7, t}
}

// HarnessC12Mixed: values of different struct types side by side (in one slice, in one map, in two calls): each is
// visible through its own field names, whatever type came first - also when two local types print the same name.
func HarnessC12Mixed() {
	s := symBytesAny("s", 1)
	var data map[string]any
	var src, want string
	switch vChoice("shape", 5) {
	case 0:
		data = map[string]any{"v": []any{c12RowA{s, 1}, c12RowB{2, "b", true}}}
		src, want = "{{ v[0].title }}{{ v[0].n }}|{{ v[1].title }}{{ v[1].n }}{{ v[1].extra }}", s+"1|b21"
	case 1:
		data = map[string]any{"v": []any{c12RowB{2, "b", true}, c12RowA{s, 1}, struct{}{}, c12RowA{"z", 9}}}
		src, want = "{{ v[1].title }}{{ v[1].n }}|{{ v[3].title }}{{ v[0].extra }}", s+"1|z1"
	case 2:
		data = map[string]any{"m": map[string]any{"a": c12RowA{s, 1}, "b": c12RowB{2, "b", false}}}
		src, want = "{{ m.a.title }}|{{ m.b.title }}{{ m.b.n }}", s+"|b2"
	case 3: // two local types with the same printed name, in one render
		data = map[string]any{"x": c12LocalRow1(s), "y": c12LocalRow2("q")}
		src, want = "{{ x.title }}{{ x.n }}|{{ y.title }}{{ y.n }}", s+"3|q7"
	default: // ... and in two renders of one process
		first, ferr := EvaluateString("{{ y.title }}{{ y.n }}", map[string]any{"y": c12LocalRow2("q")})
		vAssert(ferr == nil && first == "q7", "reachable-path-renders")
		data = map[string]any{"x": c12LocalRow1(s)}
		src, want = "{{ x.title }}{{ x.n }}", s+"3"
	}
	out, err := EvaluateString(src, data)
	vCover("rendered")
	vAssert(err == nil, "reachable-path-renders")
	vAssert(vEqStr(out, want), "value-prints-as-the-equal-literal")
}
