//go:build verif && verifnative

package textwire

import "github.com/textwire/textwire/v2/config"

// Native replays run many cases in one process; the engine re-initialises every package per path, so the native
// driver restores the package-level state to its initial value before each case.
func init() {
	verifResetHook = func() {
		userConfig = config.New("templates", ".tw.html", "", false)
		customFunc = config.NewFunc()
		usesTemplates.Store(false)
	}
}
