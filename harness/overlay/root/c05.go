//go:build verif

package textwire

// ---- reference definitions of Appendix B.1 ----

// refOccurrenceAt: "{{" or '@'+directive keyword starts at src[i].
func refOccurrenceAt(src string, i int) bool {
	if src[i] == '{' && i+1 < len(src) && src[i+1] == '{' {
		return true
	}
	if src[i] == '@' && refDirectiveAt(src, i) {
		return true
	}
	return false
}

// refPure: every occurrence is escaped by an immediately preceding backslash.
func refPure(src string) bool {
	for i := 0; i < len(src); i++ {
		if refOccurrenceAt(src, i) {
			if i == 0 || src[i-1] != '\\' {
				return false
			}
		}
	}
	return true
}

// refRender deletes exactly the escaping backslashes.
func refRender(src string) string {
	esc := refEscapes(src)
	out := make([]byte, 0, len(src))
	for i := 0; i < len(src); i++ {
		if !esc[i] {
			out = append(out, src[i])
		}
	}
	return string(out)
}

func symBytes(name string, n int) string {
	b := make([]byte, n)
	for i := range b {
		b[i] = vByte(name)
		vAssume(b[i] != 0)
	}
	return string(b)
}

// HarnessC05Free: a text of N arbitrary bytes without unescaped syntax renders to itself minus escape backslashes.
func HarnessC05Free() {
	src := symBytes("b", vParam("N"))
	vAssume(refPure(src))
	want := refRender(src)
	switch vChoice("earlier-render", 3) {
	case 1: // an earlier render of the same process that fails after it has produced text
		_, ferr := EvaluateString("<s>{{ 1 }}</s>{{ undefinedName }}", nil)
		vAssert(ferr != nil, "faulty-template-fails")
	case 2: // an earlier successful render
		_, ferr := EvaluateString("@each(v in [1, 2])<{{ v }}>@end", nil)
		vAssert(ferr == nil, "earlier-template-renders")
	}
	out, err := EvaluateString(src, nil)
	vCover("rendered")
	vAssert(err == nil, "pure-text-renders-without-error")
	vAssert(vEqStr(out, want), "pure-text-renders-to-itself")
}

func refContainsAt(s, sub string, i int) bool {
	return i+len(sub) <= len(s) && s[i:i+len(sub)] == sub
}

// HarnessC05Comment: pre {{-- body --}} post renders R(pre)+R(post) whatever the body holds short of the terminator.
func HarnessC05Comment() {
	pre := symBytes("pre", vParam("P"))
	body := symBytes("body", vChoice("body.len", vParam("K")+1)) // 0..K bytes: the empty comment {{----}} included
	post := symBytes("post", vParam("Q"))
	vAssume(refPure(pre))
	vAssume(refPure(post))
	if len(pre) > 0 {
		last := pre[len(pre)-1]
		vAssume(last != '\\' && last != '{')
	}
	// the first terminator is the one we wrote
	closed := body + "--}}"
	for i := 0; i < len(body); i++ {
		vAssume(!refContainsAt(closed, "--}}", i))
	}
	src := pre + "{{--" + body + "--}}" + post
	want := refRender(pre) + refRender(post)
	out, err := EvaluateString(src, nil)
	vCover("rendered")
	vAssert(err == nil, "comment-renders-without-error")
	vAssert(vEqStr(out, want), "comment-produces-no-output-and-hides-its-content")
}

var c05Constructs = []struct{ src, out string }{
	{"{{ 1 }}", "1"},
	{"@if(true)x@end", "x"},
	{"{{-- c --}}", ""},
	{"{{ \"s\" }}", "s"},
	{"@each(v in [1])y@end", "y"},
}

// HarnessC05Splice: X · hole · Y with concrete constructs X, Y and a symbolic pure hole.
func HarnessC05Splice() {
	nc := vParam("C")
	x := c05Constructs[vChoice("x", nc)]
	y := c05Constructs[vChoice("y", nc)]
	hole := symBytes("h", vParam("K"))
	vAssume(refPure(hole))
	if len(hole) > 0 {
		last := hole[len(hole)-1]
		vAssume(last != '\\' && last != '{')
	}
	src := x.src + hole + y.src
	want := x.out + refRender(hole) + y.out
	out, err := EvaluateString(src, nil)
	vCover("rendered")
	vAssert(err == nil, "splice-renders-without-error")
	vAssert(vEqStr(out, want), "text-between-constructs-is-emitted-byte-for-byte")
}


// HarnessC05Inner: pure text glued directly behind a directive keyword that has a longer spelling (@else / @elseif,
// @break / @breakIf, @continue / @continueIf) is text unless it really spells the longer keyword.
func HarnessC05Inner() {
	hole := symBytes("h", vParam("K"))
	vAssume(refPure(hole))
	if len(hole) > 0 {
		last := hole[len(hole)-1]
		vAssume(last != '\\' && last != '{')
	}
	var src, want string
	switch vChoice("keyword", 3) {
	case 0:
		vAssume(!(len(hole) >= 2 && hole[0] == 'i' && hole[1] == 'f')) // that would be @elseif
		src, want = "a@if(false)y@else"+hole+"@end", "a"+refRender(hole)
	case 1:
		vAssume(!(len(hole) >= 2 && hole[0] == 'I' && hole[1] == 'f')) // @breakIf
		src, want = "@each(v in [1, 2])<{{ v }}@break"+hole+">@end", "<1"
	default:
		vAssume(!(len(hole) >= 2 && hole[0] == 'I' && hole[1] == 'f')) // @continueIf
		src, want = "@each(v in [1, 2])<{{ v }}@continue"+hole+">@end", "<1<2"
	}
	out, err := EvaluateString(src, nil)
	vCover("rendered")
	vAssert(err == nil, "text-behind-a-directive-keyword-renders-without-error")
	vAssert(vEqStr(out, want), "text-between-constructs-is-emitted-byte-for-byte")
}


// HarnessC05Tail: K symbolic bytes in front of a long concrete tail (the lexer looks ahead up to the length of the
// longest directive name): an escaping backslash is removed only in front of a real directive or "{{".
func HarnessC05Tail() {
	head := symBytes("h", vParam("K"))
	src := head + []string{"edia print 0123456789", "if(true) 0123456789ab", "{ 1 }} 0123456789abcd", "home\\users 0123456789"}[vChoice("tail", 4)]
	vAssume(refPure(src))
	want := refRender(src)
	out, err := EvaluateString(src, nil)
	vCover("rendered")
	vAssert(err == nil, "pure-text-renders-without-error")
	vAssert(vEqStr(out, want), "pure-text-renders-to-itself")
}
