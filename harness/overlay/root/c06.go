//go:build verif

package textwire

import "github.com/textwire/textwire/v2/config"

// symLetter: a symbolic byte constrained to the letters a..d (used for reserve/insert/slot names).
func symLetter(label string) string {
	b := vByte(label)
	vAssume(b >= 'a' && b <= 'd')
	return string([]byte{b})
}

func newTemplate(dir, ext string) (*Template, error) {
	return NewTemplate(&config.Config{TemplateDir: dir, TemplateExt: ext})
}

// HarnessC06Layout: a page using a layout renders the layout with every @reserve(n) replaced by the page's
// @insert(n) content; reserve and insert names are symbolic, so matching, duplicates and undefined inserts are
// decided by the solver.
func HarnessC06Layout() {
	vfsReset()
	dir := []string{"templates", "views/tw"}[vChoice("dir", 2)]
	ext := []string{".tw", ".tw.html"}[vChoice("ext", 2)]
	useName := []string{"~main", "layouts/main"}[vChoice("use", 2)]
	n1, n2 := symLetter("reserve"), symLetter("reserve")
	vAssume(n1 != n2) // the statement takes reserve names to be distinct within the layout
	x := string([]byte{vByte("x")})
	cond := vBool("c")
	variant := vChoice("layout", 3)
	falsy := []any{0, false, 0.0, 5}[vChoice("falsy", 4)] // printed by an expression-form insert: "0", "0", "0.0", "5"
	falsyText := []string{"0", "0", "0.0", "5"}
	_ = falsyText
	r2 := "@reserve(\"" + n2 + "\")"
	switch variant {
	case 1:
		r2 = "@if(c)" + r2 + "@end"
	case 2:
		r2 = "@each(v in [1, 2])<" + r2 + ">@end"
	}
	layout := "H{{ x }}[@reserve(\"" + n1 + "\")|" + r2 + "]T"
	vfsWriteFile(dir+"/layouts/main"+ext, layout)
	// the page: 0..2 inserts with symbolic names, block or expression form, junk text around them
	k := vChoice("inserts", 3)
	page := "@use(\"" + useName + "\")junk0"
	names := make([]string, k)
	bodies := make([]string, k)
	for j := 0; j < k; j++ {
		names[j] = symLetter("insert")
		switch vChoice("form", 5) {
		case 4:
			// a string literal as the expression form is an expression like any other: the reserve shows what
			// {{ "..." }} prints for it (string literals are escaped on output), not the raw literal
			lit := "\"T&<" + string([]byte{byte('0' + j)}) + ">\""
			page += "@insert(\"" + names[j] + "\", " + lit + ")"
			printed, perr := EvaluateString("{{ "+lit+" }}", nil)
			vAssert(perr == nil, "string-literal-prints")
			bodies[j] = printed
		case 3: // a block-form insert with nothing in it fills the reserve with nothing
			page += "@insert(\"" + names[j] + "\")@end"
			bodies[j] = ""
		case 0:
			page += "@insert(\"" + names[j] + "\")<b" + string([]byte{byte('0' + j)}) + "{{ x }}>@end"
			bodies[j] = "<b" + string([]byte{byte('0' + j)}) + x + ">"
		case 1:
			page += "@insert(\"" + names[j] + "\", x + \"!\")"
			bodies[j] = x + "!"
		default:
			// the value of the expression form is printed whatever it is, also when it is falsy
			page += "@insert(\"" + names[j] + "\", z)"
			switch f := falsy.(type) {
			case int:
				bodies[j] = []string{"0", "", "", "", "", "5"}[f]
			case bool:
				bodies[j] = "0"
			case float64:
				bodies[j] = "0.0"
			}
		}
		page += "junk" + string([]byte{byte('1' + j)})
	}
	vfsWriteFile(dir+"/page"+ext, page)
	tpl, loadErr := newTemplate(dir, ext)
	vCover("loaded")
	// reference
	mustFail := false
	for j := 0; j < k; j++ {
		if names[j] != n1 && names[j] != n2 {
			mustFail = true // insert that names no reserve
		}
		for i := 0; i < j; i++ {
			if names[i] == names[j] {
				mustFail = true // two inserts with one name
			}
		}
	}
	if mustFail {
		vAssert(loadErr != nil && tpl == nil, "undefined-or-duplicate-insert-is-reported-at-load")
		return
	}
	vAssert(loadErr == nil && tpl != nil, "valid-layout-and-page-load")
	fill := func(n string) string {
		for j := 0; j < k; j++ {
			if names[j] == n {
				return bodies[j]
			}
		}
		return ""
	}
	second := fill(n2)
	switch variant {
	case 1:
		if !cond {
			second = ""
		}
	case 2:
		second = "<" + second + "><" + second + ">"
	}
	want := "H" + x + "[" + fill(n1) + "|" + second + "]T"
	out, err := tpl.String("page", map[string]any{"x": x, "c": cond, "z": falsy})
	vCover("rendered")
	vAssert(err == nil, "page-renders")
	vAssert(vEqStr(out, want), "layout-is-rendered-with-reserves-filled-by-inserts")
	// layouts are not directly renderable
	_, lerr := tpl.String("layouts/main", map[string]any{"x": x, "c": cond})
	vAssert(lerr != nil, "layout-file-is-not-a-renderable-template")
}

// HarnessC06Errors: a missing layout file and a layout that itself uses a layout are reported as errors.
func HarnessC06Errors() {
	vfsReset()
	x := string([]byte{vByte("x")})
	switch vChoice("case", 3) {
	case 2:
		// a layout without any reserve: every insert of the page names no reserve
		vfsWriteFile("templates/layouts/main.tw", "<footer>F</footer>")
		form := []string{"@insert(\"a\", x)", "@insert(\"a\")body@end"}[vChoice("form", 2)]
		vfsWriteFile("templates/page.tw", "@use(\"~main\")"+form)
		tpl, err := newTemplate("templates", ".tw")
		vAssert(err != nil && tpl == nil, "insert-into-a-layout-without-reserves-is-reported")
	case 0:
		vfsWriteFile("templates/page.tw", "@use(\"~nolayout\")@insert(\"a\", x)")
		tpl, err := newTemplate("templates", ".tw")
		vAssert(err != nil && tpl == nil, "missing-layout-is-reported")
	case 1:
		vfsWriteFile("templates/layouts/base.tw", "B[@reserve(\"a\")]")
		vfsWriteFile("templates/layouts/main.tw", "@use(\"~base\")@insert(\"a\")M[@reserve(\"b\")]@end")
		vfsWriteFile("templates/page.tw", "@use(\"~main\")@insert(\"b\", x)")
		tpl, err := newTemplate("templates", ".tw")
		if err == nil {
			_, rerr := tpl.String("page", map[string]any{"x": x})
			vAssert(rerr != nil, "layout-using-a-layout-is-reported")
		}
	}
	vCover("checked")
}

// HarnessC06Pages: several pages share one layout; each page's render shows its own inserts only - a page without
// inserts leaves the reserves empty whichever pages were loaded before it.
func HarnessC06Pages() {
	vfsReset()
	x := string([]byte{vByte("x")})
	vfsWriteFile("templates/layouts/main.tw", "L[@reserve(\"r\")|@reserve(\"s\")]")
	// page kinds: 0 no insert, 1 insert r, 2 inserts r and s (block form), assigned to the names p1 < p2 < p3
	kinds := []int{vChoice("p1", 3), vChoice("p2", 3), vChoice("p3", 3)}
	names := []string{"p1", "p2", "p3"}
	want := make([]string, 3)
	for i, k := range kinds {
		tag := string([]byte{byte('1' + i)})
		page := "@use(\"~main\")"
		r, s := "", ""
		switch k {
		case 1:
			page += "@insert(\"r\", x + \"" + tag + "\")"
			r = x + tag
		case 2:
			page += "@insert(\"r\")R" + tag + "@end@insert(\"s\")S" + tag + "{{ x }}@end"
			r, s = "R"+tag, "S"+tag+x
		}
		vfsWriteFile("templates/"+names[i]+".tw", page)
		want[i] = "L[" + r + "|" + s + "]"
	}
	tpl, err := newTemplate("templates", ".tw")
	vCover("loaded")
	vAssert(err == nil && tpl != nil, "pages-sharing-a-layout-load")
	i := vChoice("render", 3)
	out, ferr := tpl.String(names[i], map[string]any{"x": x})
	vAssert(ferr == nil, "page-renders")
	vAssert(vEqStr(out, want[i]), "each-page-shows-its-own-inserts-only")
}


// HarnessC06InPlace: an insert body is rendered at the place of its reserve: an assignment in it is seen by what the
// layout prints after the reserve, also from one loop pass to the next.
func HarnessC06InPlace() {
	vfsReset()
	x := string([]byte{vByte("x")})
	var layout, page, want string
	switch vChoice("shape", 6) {
	case 5: // layout and component names that contain a dot
		vfsWriteFile("templates/components/card.v2.tw", "<{{ t }}>")
		vfsWriteFile("templates/layouts/site.min.tw", "M[@reserve(\"r\")]")
		page = "@use(\"~site.min\")@insert(\"r\")@component(\"~card.v2\", {t: x})@component(\"components/card.v2\", {t: \"y\"})@end"
		want = "M[<" + x + "><y>]"
	case 3: // a component used inside the insert body
		vfsWriteFile("templates/components/card.tw", "<{{ t }}>")
		layout = "[@reserve(\"r\")]"
		page = "@use(\"~main\")@insert(\"r\")a@component(\"~card\", {t: x})b@end"
		want = "[a<" + x + ">b]"
	case 4: // ... and one used by the layout itself next to it
		vfsWriteFile("templates/components/card.tw", "<{{ t }}>")
		layout = "@component(\"~card\", {t: \"L\"})[@reserve(\"r\")]"
		page = "@use(\"~main\")@insert(\"r\")@component(\"~card\", {t: x})@end"
		want = "<L>[<" + x + ">]"
	case 0:
		layout = "{{ h = \"L\" }}[@reserve(\"r\")]{{ h }}"
		page = "@use(\"~main\")@insert(\"r\"){{ h = x }}b@end"
		want = "[b]" + x
	case 1:
		layout = "{{ t = \"\" }}@each(p in [\"1\", \"2\", \"3\"])<@reserve(\"r\")>@end"
		page = "@use(\"~main\")@insert(\"r\"){{ t = t + p }}{{ t }}@end"
		want = "<1><12><123>"
	default:
		layout = "{{ h = \"L\" }}[@reserve(\"r\")]{{ h }}"
		page = "@use(\"~main\")@insert(\"r\", x)"
		want = "[" + x + "]L"
	}
	vfsWriteFile("templates/layouts/main.tw", layout)
	vfsWriteFile("templates/page.tw", page)
	tpl, err := newTemplate("templates", ".tw")
	vCover("loaded")
	vAssert(err == nil && tpl != nil, "valid-layout-and-page-load")
	out, ferr := tpl.String("page", map[string]any{"x": x})
	vAssert(ferr == nil, "page-renders")
	vAssert(vEqStr(out, want), "insert-body-is-rendered-at-the-place-of-its-reserve")
}
