#!/usr/bin/env python3
"""Regenerates /verif/MANIFEST.json from harness/checks.json (claimed) and the not-applicable table below."""
import json, os
here = os.path.dirname(os.path.abspath(__file__))
checks = json.load(open(os.path.join(here, "harness", "checks.json")))
props = [json.loads(l) for l in open(os.path.join(here, "properties.jsonl"))]
NA = json.load(open(os.path.join(here, "not_applicable.json")))
out = {
    "version": 1,
    "setup_cmd": "cd /verif/engine && GOFLAGS=-mod=mod GOPROXY=off GOSUMDB=off GOTOOLCHAIN=local go build -o /verif/bin/symgo ./cmd/symgo",
    "hooks": {
        "guard": "verif",
        "enable": "no source hooks: harness files (//go:build verif) are injected into /repo's packages through the go/packages overlay (symbolic run) and `go test -overlay -tags 'verif verifnative'` (native replay); nothing is written to /repo",
        "baseline_off_cmd": "cd /repo && GOFLAGS=-mod=mod GOPROXY=off go test -vet=off -count=1 ./...",
        "source_commits": [],
        "add_only": True,
    },
    "engines": [{
        "name": "symgo",
        "path": "/verif/engine",
        "serves_properties": sorted(checks.keys()),
        "kind_free_text": "bounded symbolic execution of the repository's go/ssa form (own interpreter, x/tools v0.29.0): symbolic bytes/ints/floats in a concrete heap, every branch on symbolic data decided by z3 4.8.12 over an SMT-LIB2 pipe, stateless DFS by re-execution, native replay of every counterexample and of sampled passing paths through `go test -overlay`",
    }],
    "checks": [],
    "not_applicable": [],
    "notes": "All checks rebuild the SSA encoding from /repo's working tree on every run (go/packages load with overlay). Exit 0 = all obligations discharged on everything explored; 1 = VIOLATION reproduced natively and not listed in known_findings.json; 2 = the run is not trustworthy (build failure, engine/native mismatch, inconclusive paths, vacuous harness).",
}
for pid in sorted(checks.keys()):
    c = checks[pid]
    hs = ", ".join(h["fn"] for h in c["harnesses"])
    out["checks"].append({
        "property_id": pid,
        "quick_cmd": f"./run {pid} quick",
        "thorough_cmd": f"./run {pid} thorough",
        "evidence_file": f"/verif/evidence/{pid}.json",
        "replay_cmd_template": "cat {path}  # the file holds the concrete inputs; ./run re-replays it natively on every run",
        "engine": "symgo",
        "technique": c.get("technique", "solver-based bounded symbolic execution of the real Go code (go/ssa -> SMT-LIB2, z3), counterexamples replayed natively"),
        "level_claimed": {
            "category": "model_checking",
            "text": "Every path of the harnesses (" + hs + ") through the real lexer/parser/evaluator code is explored with symbolic inputs; each assertion is discharged by z3 as 'path condition AND NOT assertion is unsat', so within the stated bounds the property holds for every input value, not for a sample. Bounds: " + c["bounds"] + ".",
            "design_ref": "DESIGN.md §3 " + pid + " and §9 (as built)",
        },
        "level_note": "Trusted base: go/ssa lowering, the symgo interpreter (validated on every run by replaying sampled paths natively and comparing outcomes/observations), z3; stubs: " + ("; ".join(c.get("stubs", [])) or "none beyond the engine's intrinsics") + ". Outside the claim: " + c["outside"] + ".",
    })
claimed = set(checks.keys())
for p in props:
    if p["id"] not in claimed:
        out["not_applicable"].append({"property_id": p["id"], "reason": NA.get(p["id"], "check not built yet in this session (no claim is made)")})
json.dump(out, open(os.path.join(here, "MANIFEST.json"), "w"), indent=1)
print("claimed:", sorted(claimed), "not applicable:", [x["property_id"] for x in out["not_applicable"]])
