#!/bin/bash
# usage: tools/seed_import.sh <Cxx> <k>   — copies a sub-agent delivery from /tmp/seed/<Cxx>.out into /verif/seeded/<Cxx>-<k>/
P=$1; K=$2; OUT=/tmp/seed/$P.out; D=/verif/seeded/$P-$K
mkdir -p $D
cp $OUT/patch$K.diff $D/patch.diff; cp $OUT/demo${K}_test.go $D/demo_test.go; cp $OUT/meta$K.json $D/meta.agent.json
