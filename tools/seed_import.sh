#!/bin/bash
# usage: tools/seed_import.sh <delivery dir name under /tmp/seed, e.g. C11r2.out> <k> <seed name e.g. C11-3>
OUT=/tmp/seed/$1; K=$2; D=/verif/seeded/$3
mkdir -p $D
cp $OUT/patch$K.diff $D/patch.diff; cp $OUT/demo${K}_test.go $D/demo_test.go; cp $OUT/meta$K.json $D/meta.agent.json
