#!/usr/bin/env python3
"""Writes /verif/seeded/README.md from the meta.json of every kept seeded change."""
import json, os, glob
here = os.path.dirname(os.path.dirname(os.path.abspath(__file__)))
missed = {
 "C03-1": "missed at first: no harness put a control directive into the @else body of an inner @for; HarnessC03Nest gained the shape 'else-control' (inner @each/@for with false entry, @break/@continue/@breakIf/@continueIf bare or under @if)",
 "C04-1": "missed at first: no scope kind went through @elseif; HarnessC04Scopes gained the scope '@if(false)q@elseif(true)…'",
 "C04-2": "missed at first: nil was not among the literal/data kinds; the literal list and the data pre-binding gained nil",
 "C06-1": "missed at first: the only expression-form insert was a non-empty string; a third insert form prints a data value from {0, false, 0.0, 5}",
 "C06-2": "missed at first: every layout had reserves; HarnessC06Errors gained the layout without reserves",
 "C07-1": "missed at first: no argument value referred to a page variable that shares its name with an earlier argument key; page 5 added",
 "C08-2": "missed at first: the prefix corpus had no @insert/@slot bodies; three templates and the block tracking of the reference scanner were added (this also exposed the unterminated-component defect, repaired in /repo)",
 "C09-2": "missed by C09 at first (caught by C12 from the start): fixed-size arrays were not among C09's data kinds; added at top level and nested",
 "C12-2": "missed at first: numbers came from boundary sets that lacked uint64 = MaxInt64; HarnessC12Numbers converts every integer width with a fully symbolic value",
 "C13-1": "missed at first: the faulty construct was always on one line; HarnessC13Split puts a symbolic line break inside the construct before the offending token",
 "C15-1": "engine flagged a shared store at first but the first witness pair did not race natively (exit 2); the check now asserts pair-wise conflict freedom (store by one call / access by the other), whose witnesses are racy pairs",
 "C15-2": "missed at first: the loaded Template was held by a harness local and not part of the shared set; vShare(tpl) added",
 "C16-1": "missed at first: no operation rendered without data or assigned a top-level variable; pages setter/reader added",
 "C16-2": "missed at first: no template used a property reachable only through the capitalised spelling; page prof with struct and map data added",
 "C17-2": "exit 2 at first (fmt.Fprintln had no engine intrinsic, so http.Error ended the path as unsupported); intrinsic added",
 "C18-2": "missed at first: the virtual FileInfo reported a dangling symlink as a regular file; Mode() now carries ModeSymlink",
 "C19-2": "missed at first: Position.Contains had no harness; HarnessC19Cursor added (symbolic cursor)",
}
rows = []
for d in sorted(glob.glob(os.path.join(here, "seeded", "C*-*"))):
    mp = os.path.join(d, "meta.json")
    if not os.path.exists(mp):
        continue
    m = json.load(open(mp))
    rows.append(m)
out = ["# Seeded changes", "",
"Each directory holds one change to textwire/textwire written by an independent sub-agent that was given only the text of one property and a scratch git worktree of /repo (nothing from /verif): `patch.diff` (applies to /repo's HEAD), `demo_test.go` (fails with the change, passes without), `meta.agent.json` (the author's description), `meta.json` and `confirmation.log` (what `tools/seed_eval.sh` observed: suite still green with the change, demo fails with it and passes without it, and the exit status of the owning check run against a scratch worktree carrying the change).",
"", "No change is ever applied to /repo itself. To re-run one: `tools/seed_eval.sh C03-1`.", "",
"| seed | what was changed | needs to manifest | caught by | note |", "|---|---|---|---|---|"]
for m in rows:
    n = m["seed"]
    out.append("| %s | %s | %s | %s | %s |" % (n, (m.get("summary") or "").replace("|", "/").replace("\n", " ")[:260], (str(m.get("needs_to_manifest")) or "").replace("|", "/").replace("\n", " ")[:260], ", ".join(m["caught_by"]) or "**missed**", missed.get(n, "")))
open(os.path.join(here, "seeded", "README.md"), "w").write("\n".join(out) + "\n")
print(len(rows), "seeds;", sum(1 for m in rows if m["caught_by"]), "caught")
