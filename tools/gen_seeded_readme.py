#!/usr/bin/env python3
"""Writes /verif/seeded/README.md from the meta.json of every kept seeded change."""
import json, os, glob
here = os.path.dirname(os.path.dirname(os.path.abspath(__file__)))
missed = {
 "C03-1": "missed at first: no harness put a control directive into the @else body of an inner @for; HarnessC03Nest gained the shape 'else-control' (inner @each/@for with false entry, @break/@continue/@breakIf/@continueIf bare or under @if)",
 "C04-1": "missed at first: no scope kind went through @elseif; HarnessC04Scopes gained the scope '@if(false)q@elseif(true)…'",
 "C04-2": "missed at first: nil was not among the literal/data kinds; the literal list and the data pre-binding gained nil",
 "C06-1": "missed at first: the only expression-form insert was a non-empty string; a third insert form prints a data value from {0, false, 0.0, 5}",
 "C06-2": "missed at first: every layout had reserves; HarnessC06Errors gained the layout without reserves",
 "C07-1": "missed at first: no argument value referred to a page variable that shares its name with an earlier argument key; page 5 added",
 "C08-2": "missed at first: the prefix corpus had no @insert/@slot bodies; three templates and the block tracking of the reference scanner were added (this also exposed the unterminated-component defect, repaired in /repo)",
 "C09-2": "missed by C09 at first (caught by C12 from the start): fixed-size arrays were not among C09's data kinds; added at top level and nested",
 "C12-2": "missed at first: numbers came from boundary sets that lacked uint64 = MaxInt64; HarnessC12Numbers converts every integer width with a fully symbolic value",
 "C13-1": "missed at first: the faulty construct was always on one line; HarnessC13Split puts a symbolic line break inside the construct before the offending token",
 "C15-1": "engine flagged a shared store at first but the first witness pair did not race natively (exit 2); the check now asserts pair-wise conflict freedom (store by one call / access by the other), whose witnesses are racy pairs",
 "C15-2": "missed at first: the loaded Template was held by a harness local and not part of the shared set; vShare(tpl) added",
 "C16-1": "missed at first: no operation rendered without data or assigned a top-level variable; pages setter/reader added",
 "C16-2": "missed at first: no template used a property reachable only through the capitalised spelling; page prof with struct and map data added",
 "C17-2": "exit 2 at first (fmt.Fprintln had no engine intrinsic, so http.Error ended the path as unsupported); intrinsic added",
 "C18-2": "missed at first: the virtual FileInfo reported a dangling symlink as a regular file; Mode() now carries ModeSymlink",
 "C19-2": "missed at first: Position.Contains had no harness; HarnessC19Cursor added (symbolic cursor)",
 "C03-4": "missed at first: every loop pass printed something before its control directive; HarnessC03ForSym places the directive first in the body too and adds @breakIf/@continueIf(i != k)",
 "C09-4": "exit 2 at first (reflect.Value.FieldByIndex had no engine model); model added (with package reflect's two read-only flags), and C09's data kinds gained structs that embed a nil / non-nil pointer",
 "C11-3": "missed at first: purity was checked on the receiver of one call only; HarnessC11Arr gained append-twice (receiver with spare capacity) and slice-then-append, asserting that a later call does not change an earlier result",
 "C11-4": "same change as C09-3 (repeat guard overflows for a multi-byte receiver): caught by C09 (Builtins); C11's repeat harness keeps counts small",
 "C13-3": "missed at first: no multi-line token began with its line break; token kinds 'block-style comment', 'text run starting with a break' and 'string starting with a break' added",
 "C13-4": "missed at first: run-time faults inside component/layout files were outside the bound; HarnessC13Files asserts their line (not their path)",
 "C16-3": "missed at first: the baseline probe ran on the same Template as the history, so a cache filled by the first call was shared by both; the baseline now runs on a separately loaded identical Template",
 "C16-4": "missed at first: as C16-3, plus the custom error page never failed; the error-page configuration is now a choice between a valid and a failing page",
 "C18-3": "missed at first: TemplateDir spellings ending in '.', '..' and a dot-named sub-directory were missing; added",
 "C18-4": "missed at first: no template name ended in the extension itself; HarnessC18DoubleExt added (layout and component 'x.tw.tw', with and without a shorter sibling)",
 "C19-3": "missed at first: free byte strings of 4 bytes cannot hold a complete comment; HarnessC19Splice puts K symbolic bytes into concrete construct halves (inside a comment, after @else/@break/@continue, inside a string)",
 "C19-4": "missed at first: as C19-3 (the bytes after '@else' were never letters followed by more source)",
 "C04-3": "missed at first: no nested block was the @else block of a loop that makes no pass; scope kinds added for @each and @for",
 "C04-4": "missed at first: loop variables were bound once; HarnessC04LoopVar iterates a visible name over two elements of every type pair",
 "C06-3": "missed at first: block-form inserts always had a body; the empty form '@insert(n)@end' added",
 "C10-4": "missed at first: each literal was used once; HarnessC10Reuse uses one literal several times with and without raw() in five orders",
 "C12-4": "missed at first: no map held two keys differing only in the case of the first letter; map M gained 'k' and 'K'",
 "C14-3": "exit 2 at first (sort.Slice had no engine model); insertion-sort model added (what package sort runs up to 12 elements), and the data/object literals gained names that differ only in letter case",
 "C14-4": "exit 2 at first (sort.Slice, as C14-3); caught by HarnessC14Tree's tree 0 (three undefined inserts on one line) once modelled",
 "C15-3": "engine flagged the unsynchronised memo store at first but the native pair did not race because both solo calls had already filled the cache (exit 2); 25 of the 60 native concurrent iterations now run as the first two calls on a freshly loaded Template",
 "C15-4": "exit 2 at first (sync.Pool had no engine model); model added (Get returns the value put last, else New()), a page that fails inside a loop pass added, and the check gained the assertion for the schedule 'first call, then second call': the second call returns what it returns alone on a fresh Template",
 "C17-3": "missed at first: the failed page's data never clashed with the error page; the custom error page now assigns a variable that the failed page's data binds with another type, and a page whose data is itself unsupported was added",
 "C17-4": "missed at first: NewTemplate was called once per path; an earlier NewTemplate with the opposite debug setting is now a choice",
 "C20-3": "missed at first: receivers were literals or template variables; receivers from the Go data and from built-in/operator results added",
 "C01-5": "missed at first: every postfix expression was the only use of its operand; skeletons that read the variable / element again (a++ + a, xs[0]++ + xs[0], f-- + f for floats) added",
 "C01-6": "missed at first: prefix operators were applied to variables only; skeletons with a numeric literal between a prefix and a postfix operator added (-2++, a * -2++, -7 % 4)",
 "C03-5": "caught by C04 (Scopes) as delivered; C03 missed it at first because no nested loop reused the outer loop's variable name; HarnessC03Clauses added",
 "C03-6": "missed at first: every @for had all three clauses; HarnessC03Clauses adds loops with an absent post clause (the body advances the counter) or an absent condition, with @else",
 "C05-6": "missed at first: every C05 path made one render; HarnessC05Free is optionally preceded by a render that fails after producing text (sync.Pool model from round 2)",
 "C06-5": "missed at first: every tree had one page; HarnessC06Pages loads three pages sharing a layout in all 27 insert combinations",
 "C09-5": "missed by C09 at first (C12 has the shape): no struct with a nil pointer field among C09's data kinds; added directly, behind a pointer and inside a slice",
 "C09-6": "missed by C09 at first (same change as C20-4, caught by C20): no custom function in C09's templates; HarnessC09Custom registers for one receiver type and calls on all seven kinds",
 "C11-5": "missed at first: string decimal() had no contract in HarnessC11Str; added for every receiver of <= L bytes (sign only, sign + digits, other)",
 "C11-6": "missed at first: precedence was checked with accepted arguments only; HarnessC11PrecedenceErr calls four built-ins with rejected arguments while a same-named custom function is registered",
 "C13-6": "missed at first: no fault sat in a slot body passed to a component; two fault kinds added to HarnessC13Files (default and named slot)",
 "C14-6": "missed at first: unsupported values were at the top level of the data only; a nested map with three unsupported values of different types added",
 "C16-6": "missed at first: (a) debug mode was never on in C16's tree - added as a configuration; (b) a package-level cache is shared by the baseline Template and the one under test, so comparing the two cannot see it - the check now also asserts that a debug-mode body shows the very failure the call returns; sync.Map modelled in the engine",
 "C17-6": "exit 2 at first (atomic.Pointer's CompareAndSwapPointer had no engine model); model added, and the earlier-NewTemplate choice gained 'has already served a failing request'",
 "C18-5": "exit 2 at first (errors.As went through reflectlite; intrinsic added). Then missed because the oracle was looser than the statement: for a missing/unreadable layout or component it also accepted an error naming the page; it now demands the faulty file's own path or name (the looser form remains only for damaged files that still parse)",
 "C18-6": "missed at first: no directory spelling cleaned to the working directory itself; '.', './', 'tpl/..', 'other/../' added",
 "C20-6": "missed at first: every call went through EvaluateString; calls through a Template loaded and used before the registration added",
 "C02-5": "exit 2 at first (reflect.Value.IsZero had no engine model); model added, and the condition kinds gained zero struct, pointer to it, nil slice, nil map, nil pointer",
 "C02-6": "missed at first: directives were always written without a gap before '('; blank / tab / newline gaps added for @if, @elseif, @breakIf, @continueIf",
 "C15-5": "engine crashed into a nil generator at first (math/rand.New returned nil in the model); rand.New now yields a generator whose draws read and write its state cell, so a generator shared by two calls is a conflicting access; page with shuffle() added",
 "C02-7": "missed at first: every ternary stood alone; HarnessC02Chain adds unparenthesised chains a ? x : b ? y : z (also with a falsy chosen value)",
 "C02-8": "missed at first: conditions were identifiers; HarnessC02Chain uses array literals with a failing later element as conditions of @elseif, the ternary and @breakIf",
 "C04-7": "caught by C01 (Float) as delivered; C04 missed it at first because no value was copied into a nested block and changed there; HarnessC04Alias added (floats, integers, arrays, object properties, loop elements)",
 "C04-8": "missed at first: no scope kind was a component body; HarnessC04Component added (uses with and without arguments, inside @each/@if; assigned names, argument names, page and data variables of the same name)",
 "C05-8": "missed at first (C19Splice sees the token change, C05 did not): no text was glued directly behind @else/@break/@continue; HarnessC05Inner added",
 "C06-8": "missed at first: insert bodies never assigned a variable that the layout reads later; HarnessC06InPlace added (also across loop passes)",
 "C07-8": "missed at first: the missing component had a fixed alphabetic name; its name now holds one symbolic printable byte, '%' included",
 "C13-8": "missed at first: paths never held a '%'; HarnessC13Files chooses among directory names 'templates', 't%20x', '100%d'",
 "C14-8": "same change as C16-4/C16-8 (caught by C16); C14 missed it at first because nothing failed between the compared renders; an optional earlier render that fails inside a loop pass added",
 "C17-8": "missed at first: no failing page had a '%' in its error message; page pct ({{ 7 % \"3\" }}) added",
 "C18-7": "missed at first: the layout used no component of its own; it now does, and that component is a fourth fault location",
 "C18-8": "missed at first: EvaluateFile ran in a fresh process state; it is now optionally preceded by a successful or a failed NewTemplate",
 "C20-7": "missed at first: custom functions never changed what they were handed; HarnessC20Values registers one that overwrites receiver, argument and nested slices and calls it twice on one array variable",
 "C20-8": "missed at first: no custom function returned a nil slice; HarnessC20Values checks len(), @each/@else, truthiness and re-assignment of such a result",
}
rows = []
for d in sorted(glob.glob(os.path.join(here, "seeded", "C*-*"))):
    mp = os.path.join(d, "meta.json")
    if not os.path.exists(mp):
        continue
    m = json.load(open(mp))
    rows.append(m)
out = ["# Seeded changes", "",
"Each directory holds one change to textwire/textwire written by an independent sub-agent that was given only the text of one property and a scratch git worktree of /repo (nothing from /verif): `patch.diff` (applies to /repo's HEAD), `demo_test.go` (fails with the change, passes without), `meta.agent.json` (the author's description), `meta.json` and `confirmation.log` (what `tools/seed_eval.sh` observed: suite still green with the change, demo fails with it and passes without it, and the exit status of the owning check run against a scratch worktree carrying the change).",
"", "No change is ever applied to /repo itself. To re-run one: `tools/seed_eval.sh C03-1`.", "",
"| seed | what was changed | needs to manifest | caught by | note |", "|---|---|---|---|---|"]
for m in rows:
    n = m["seed"]
    out.append("| %s | %s | %s | %s | %s |" % (n, (m.get("summary") or "").replace("|", "/").replace("\n", " ")[:260], (str(m.get("needs_to_manifest")) or "").replace("|", "/").replace("\n", " ")[:260], ", ".join(m["caught_by"]) or "**missed**", missed.get(n, "")))
open(os.path.join(here, "seeded", "README.md"), "w").write("\n".join(out) + "\n")
print(len(rows), "seeds;", sum(1 for m in rows if m["caught_by"]), "caught")
