#!/usr/bin/env python3
"""Cross-solver check: runs every registered harness (quick parameters) with z3 4.8.12, z3 5.1.0 (z3-new) and cvc5 and
compares what the exploration produced: number of paths, outcome histogram, fork and obligation counts. The path set of a
harness is a function of the solver's sat/unsat verdicts only (models merely choose which branch is taken first), so any
difference means two solvers disagreed on some query. Writes /verif/validation/solver_diff.json.
usage: tools/solver_diff.py [--only C01,C02] [--timeout 900]"""
import json, subprocess, re, sys, time, os
here = os.path.dirname(os.path.dirname(os.path.abspath(__file__)))
only = None
timeout = 900
args = sys.argv[1:]
while args:
    a = args.pop(0)
    if a == "--only": only = set(args.pop(0).split(","))
    elif a == "--timeout": timeout = int(args.pop(0))
checks = json.load(open(os.path.join(here, "harness", "checks.json")))
solvers = ["z3", "z3-new", "cvc5"]
rows, bad = [], 0
for cid in sorted(checks):
    if only and cid not in only: continue
    for h in checks[cid]["harnesses"]:
        if h.get("skip_quick"): continue
        params = ",".join("%s=%s" % kv for kv in (h.get("quick") or {}).items())
        row = {"check": cid, "harness": h["fn"], "params": params, "results": {}}
        for sv in solvers:
            cmd = [os.path.join(here, "bin", "symgo"), "run", "-solver", sv, "-validate", "0", "-replay=false"]
            if h.get("pkg"): cmd += ["-pkg", h["pkg"]]
            if params: cmd += ["-p", params]
            if h.get("budget"): cmd += ["-budget", str(h["budget"])]
            if h.get("map_order"): cmd += ["-map-order", h["map_order"]]
            if h.get("redirects"): cmd += ["-redirect", ",".join("%s=%s" % kv for kv in h["redirects"].items())]
            cmd.append(h["fn"])
            t0 = time.time()
            try:
                out = subprocess.run(cmd, capture_output=True, text=True, timeout=timeout).stdout
            except subprocess.TimeoutExpired:
                row["results"][sv] = {"status": "timeout after %ds" % timeout}
                continue
            m = re.search(r"paths=(\d+) outcomes=map\[([^\]]*)\] forks=(\d+) \(symbolic (\d+)\).*queries=(\d+) \(sat (\d+) unsat (\d+) unknown (\d+)\).*obligations=(\d+) discharged=(\d+)", out)
            if not m:
                row["results"][sv] = {"status": "no result line", "tail": out[-300:]}
                continue
            row["results"][sv] = {"paths": int(m.group(1)), "outcomes": m.group(2), "forks": int(m.group(3)), "symbolic_forks": int(m.group(4)),
                                  "queries": int(m.group(5)), "unknown": int(m.group(8)), "obligations": int(m.group(9)), "discharged": int(m.group(10)),
                                  "wall_s": round(time.time() - t0, 1)}
        keyf = lambda r: (r.get("paths"), r.get("outcomes"), r.get("forks"), r.get("symbolic_forks"), r.get("obligations"), r.get("discharged"))
        done = [keyf(r) for r in row["results"].values() if "paths" in r]
        row["solvers_compared"] = len(done)
        row["agree"] = len(done) >= 2 and all(k == done[0] for k in done)
        if len(done) >= 2 and not row["agree"]: bad += 1
        rows.append(row)
        print("%-4s %-26s %-18s %s %s" % (cid, h["fn"], params, "agree" if row["agree"] else "DIFFER/incomplete",
              " ".join("%s:%s" % (sv, r.get("paths", r.get("status"))) for sv, r in row["results"].items())), flush=True)
os.makedirs(os.path.join(here, "validation"), exist_ok=True)
json.dump({"when": time.strftime("%Y-%m-%dT%H:%M:%SZ", time.gmtime()), "solvers": {"z3": "4.8.12", "z3-new": "5.1.0", "cvc5": "1.0.x"},
           "harnesses": rows, "disagreements": bad}, open(os.path.join(here, "validation", "solver_diff.json"), "w"), indent=1)
print("disagreements:", bad)
sys.exit(1 if bad else 0)
