#!/usr/bin/env python3
"""Prints the markdown table of DESIGN.md section 9.2 from /verif/evidence/*.json (quick tier as committed)."""
import json, glob, os
here = os.path.dirname(os.path.dirname(os.path.abspath(__file__)))
print("| id | harnesses (quick parameters) | paths | solver-decided forks | queries | natively validated paths | wall |")
print("|----|------------------------------|------:|---------------------:|--------:|-------------------------:|-----:|")
for f in sorted(glob.glob(os.path.join(here, "evidence", "C*.json"))):
    e = json.load(open(f))
    c = e["coverage"]
    hs = []
    for h in c["harnesses"]:
        p = ",".join("%s=%s" % kv for kv in sorted((h.get("params") or {}).items()))
        hs.append(h["harness"].replace("Harness" + e["property_id"], "") + (" " + p if p else ""))
    print("| %s | %s | %d | %d | %d | %d | %.0f s |" % (e["property_id"], "; ".join(hs), c["states"], sum(h["solver_decided_forks"] for h in c["harnesses"]),
          c["queries"]["total"], c["traces_validated_against_impl"], e["wall_s"]))
