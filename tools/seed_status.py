#!/usr/bin/env python3
# Summarises, per kept seed, the last recorded run of its owning check: the /repo HEAD it ran against and the exit status.
import glob, os, re, json, collections
here = os.path.dirname(os.path.dirname(os.path.abspath(__file__)))
cur = os.popen("git -C /repo rev-parse --short HEAD").read().strip()
by = collections.Counter(); stale = []; notcaught = []
for d in sorted(glob.glob(os.path.join(here, "seeded", "C*-*"))):
    n = os.path.basename(d)
    log = open(os.path.join(d, "confirmation.log")).read().splitlines()
    head = None; last = None
    for l in log:
        m = re.match(r"repo HEAD (\w+)", l)
        if m: head = m.group(1); last = None
        m = re.match(r"check (\w+) quick: exit (\d+)", l)
        if m and (last is None or last[1] != 1): last = (head, int(m.group(2)))
        m = re.match(r"recheck \S+ verif \w+ repo (\w+): check \w+ quick exit (\d+)", l)
        if m: last = (m.group(1), int(m.group(2)))
    if last is None: notcaught.append((n, "no run")); continue
    by[(last[0] == cur, last[1])] += 1
    if last[0] != cur: stale.append(n)
    if last[1] != 1: notcaught.append((n, "exit %d on %s" % (last[1], last[0])))
print("current /repo HEAD", cur)
print("seeds whose last run was on the current HEAD and reported the change (exit 1):", by[(True, 1)])
print("seeds whose last run was on an earlier HEAD (exit 1 there):", by[(False, 1)], " ".join(stale))
print("seeds whose last run did not report the change:", notcaught)
