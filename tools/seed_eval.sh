#!/bin/bash
# usage: tools/seed_eval.sh <seed-dir-name e.g. C03-1> [check-id ...]
# Confirms the seeded change /verif/seeded/<name>/ in a fresh scratch worktree of /repo's HEAD (suite passes with the change, demo fails
# with it and passes without), runs the owning check(s) against that worktree (VERIF_REPO), removes the worktree and its build
# output, and rewrites /verif/seeded/<name>/meta.json. /repo itself is never touched.
set -u
export GOFLAGS=-mod=mod GOPROXY=off GOSUMDB=off GOTOOLCHAIN=local
N=$1; shift
P=${N%%-*}
CHECKS=${*:-$P}
D=/verif/seeded/$N
WT=/tmp/seedwt/$N
mkdir -p /tmp/seedwt
git -C /repo worktree remove --force $WT 2>/dev/null
git -C /repo worktree add -q --detach $WT HEAD || exit 9
cd $WT
LOG=$D/confirmation.log; : > $LOG
res() { echo "$1" | tee -a $LOG; }
res "repo HEAD $(git -C /repo rev-parse --short HEAD)"
cp $D/demo_test.go zz_demo_test.go
RACE=""; ENVX=""
if grep -q '"property": *"C15"' $D/meta.agent.json 2>/dev/null; then RACE="-race"; export CGO_ENABLED=1; fi
if timeout 600 go test $RACE -vet=off -count=1 -run 'Demo|demo' . >/tmp/seedwt/$N.base.txt 2>&1; then DW=pass; else DW=FAIL; fi
res "demo-without-change: $DW"
rm -f zz_demo_test.go
if ! git apply $D/patch.diff 2>/tmp/seedwt/$N.apply.txt; then res "patch: DOES NOT APPLY to current HEAD"; cat /tmp/seedwt/$N.apply.txt; git -C /repo worktree remove --force $WT; exit 3; fi
if CGO_ENABLED=0 timeout 600 go test -vet=off -count=1 ./... >/tmp/seedwt/$N.suite.txt 2>&1; then SU=pass; else SU=FAIL; fi
res "suite-with-change: $SU"
cp $D/demo_test.go zz_demo_test.go
if timeout 600 go test $RACE -vet=off -count=1 -run 'Demo|demo' . >/tmp/seedwt/$N.demo.txt 2>&1; then DC="pass (unexpected)"; else DC="fail (as intended)"; fi
res "demo-with-change: $DC"
rm -f zz_demo_test.go
unset CGO_ENABLED
cd ${VERIF_DEV:-/verif}
CAUGHT=""
for C in $CHECKS; do
  VERIF_REPO=$WT timeout 1800 ./run $C quick >/tmp/seedwt/$N.check-$C.txt 2>&1; rc=$?
  nv=$(grep -c '^VIOLATION' /tmp/seedwt/$N.check-$C.txt)
  res "check $C quick: exit $rc, $nv VIOLATION line(s)"
  grep -A1 '^VIOLATION' /tmp/seedwt/$N.check-$C.txt | grep -v '^--' | head -4 | cut -c1-400 | sed "s#$WT/##g" | tee -a $LOG
  if [ $rc -eq 1 ]; then CAUGHT="$CAUGHT $C"; fi
done
git -C /verif checkout -q -- evidence 2>/dev/null
git -C /repo worktree remove --force $WT
rm -rf /tmp/seedwt/$N.*.txt
python3 - "$D" "$N" "$P" "$DW" "$SU" "$DC" "$CAUGHT" "$CHECKS" <<'PY'
import json,sys,os
d,n,p,dw,su,dc,caught,checks=sys.argv[1:9]
a=json.load(open(os.path.join(d,'meta.agent.json')))
m={"seed":n,"property":p,"summary":a.get("summary"),"needs_to_manifest":a.get("needs_to_manifest"),"files_changed":a.get("files_changed"),
   "author":"independent sub-agent given only the property text and a scratch worktree",
   "confirmed":{"suite_with_change":su,"demo_with_change":dc,"demo_without_change":dw,"how":"tools/seed_eval.sh "+n+" (fresh worktree of /repo HEAD, go test for suite and demo, then ./run <check> quick with VERIF_REPO pointing at the worktree)"},
   "checks_run":checks.split(),"caught_by":caught.split()}
json.dump(m,open(os.path.join(d,'meta.json'),'w'),indent=1)
PY
