#!/bin/bash
# usage: tools/seed_eval.sh <Cxx> <k> [check-id ...]
# Confirms a seeded change delivered by a sub-agent in /tmp/seed/<Cxx>.out (patch<k>.diff, demo<k>_test.go, meta<k>.json) in the scratch
# worktree /tmp/seed/<Cxx>, runs the owning check(s) against that worktree, and stores the change under /verif/seeded/<Cxx>-<k>/.
set -u
export GOFLAGS=-mod=mod GOPROXY=off GOSUMDB=off GOTOOLCHAIN=local
P=$1; K=$2; shift 2
CHECKS=${*:-$P}
WT=/tmp/seed/$P; OUT=/tmp/seed/$P.out
HEAD=$(git -C /repo rev-parse HEAD)
git -C $WT checkout -q -- . ; git -C $WT clean -fdq; git -C $WT checkout -q --detach $HEAD || exit 9
cd $WT
res() { echo "$1" | tee -a /tmp/seed/$P-$K.log; }
: > /tmp/seed/$P-$K.log
cp $OUT/demo${K}_test.go zz_demo_test.go
if timeout 300 go test -vet=off -count=1 -run 'Demo|demo' . >/tmp/seed/$P-$K.base.txt 2>&1; then res "demo-without-change: pass"; else res "demo-without-change: FAIL (unexpected)"; fi
rm -f zz_demo_test.go
if ! git apply $OUT/patch$K.diff 2>/tmp/seed/$P-$K.apply.txt; then res "patch: DOES NOT APPLY to current HEAD"; cat /tmp/seed/$P-$K.apply.txt; exit 3; fi
if timeout 600 go test -vet=off -count=1 ./... >/tmp/seed/$P-$K.suite.txt 2>&1; then res "suite-with-change: pass"; else res "suite-with-change: FAIL"; fi
cp $OUT/demo${K}_test.go zz_demo_test.go
if timeout 300 go test -vet=off -count=1 -run 'Demo|demo' . >/tmp/seed/$P-$K.demo.txt 2>&1; then res "demo-with-change: pass (unexpected)"; else res "demo-with-change: fail (as intended)"; fi
rm -f zz_demo_test.go
cd /verif
for C in $CHECKS; do
  VERIF_REPO=$WT timeout 1500 ./run $C quick >/tmp/seed/$P-$K.check-$C.txt 2>&1; rc=$?
  res "check $C quick: exit $rc $(grep -c '^VIOLATION' /tmp/seed/$P-$K.check-$C.txt) violation line(s)"
  grep -A1 '^VIOLATION' /tmp/seed/$P-$K.check-$C.txt | head -6 | cut -c1-300 | tee -a /tmp/seed/$P-$K.log
done
git -C /verif checkout -q -- evidence 2>/dev/null
git -C $WT checkout -q -- . ; git -C $WT clean -fdq
D=/verif/seeded/$P-$K; mkdir -p $D
cp $OUT/patch$K.diff $D/patch.diff; cp $OUT/demo${K}_test.go $D/demo_test.go; cp $OUT/meta$K.json $D/meta.agent.json
cp /tmp/seed/$P-$K.log $D/confirmation.log
