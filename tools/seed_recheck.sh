#!/bin/bash
# usage: tools/seed_recheck.sh <seed-dir-name e.g. C03-1>
# Re-runs the owning check (quick tier) of an already confirmed seeded change against a fresh scratch worktree of /repo's HEAD carrying
# the change, and appends the outcome to the seed's confirmation.log. Suite and demo are not repeated (tools/seed_eval.sh does that).
set -u
export GOFLAGS=-mod=mod GOPROXY=off GOSUMDB=off GOTOOLCHAIN=local
N=$1; P=${N%%-*}; D=/verif/seeded/$N; WT=/tmp/seedwt/$N
mkdir -p /tmp/seedwt
git -C /repo worktree remove --force $WT 2>/dev/null
git -C /repo worktree add -q --detach $WT HEAD || exit 9
STAMP="recheck $(date -u +%Y-%m-%dT%H:%MZ) verif $(git -C /verif rev-parse --short HEAD) repo $(git -C /repo rev-parse --short HEAD)"
if ! (cd $WT && git apply $D/patch.diff 2>/dev/null); then echo "$STAMP: patch does not apply" >> $D/confirmation.log; git -C /repo worktree remove --force $WT; exit 3; fi
CHECKS=$(python3 -c "import json;print(' '.join(json.load(open('$D/meta.json'))['caught_by']))")
for C in $CHECKS; do
  (cd ${VERIF_DEV:-/verif} && VERIF_REPO=$WT timeout 1800 ./run $C quick >/tmp/seedwt/$N.recheck.txt 2>&1); rc=$?
  echo "$STAMP: check $C quick exit $rc, $(grep -c '^VIOLATION' /tmp/seedwt/$N.recheck.txt) VIOLATION line(s)" >> $D/confirmation.log
done
git -C /repo worktree remove --force $WT
rm -f /tmp/seedwt/$N.recheck.txt
