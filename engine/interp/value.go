// Package interp is a symbolic interpreter for go/ssa.
//
// Its structure follows golang.org/x/tools/go/ssa/interp (BSD-3-Clause, © The Go Authors), which is a concrete
// interpreter; this one uses a different value model (all integers are int64 or SMT terms, strings may hold
// symbolic bytes, maps are insertion-ordered association lists) and forks on symbolic conditions.
package interp

import (
	"fmt"
	"go/types"
	"math"
	"strings"

	"golang.org/x/tools/go/ssa"

	"symgo/term"
)

// Value is one of:
//
//	bool | *term.T (Bool)
//	int64 | *term.T (BV w)           all integer types; canonical (sign/zero extended) for the static type
//	float64 | *term.T (FP)
//	complex128
//	string | *SymStr
//	*Value                            pointer
//	*SymElemPtr                       pointer to a[i] with symbolic i (load only)
//	Struct, Array, []Value (slice), *Map, Iface, Tuple
//	*ssa.Function, *ssa.Builtin, *Closure
//	RType, *mapIter, *strIter, **deferred, Bad, unsafePtr
type Value = interface{}

type Tuple []Value
type Array []Value
type Struct []Value

type Iface struct {
	T types.Type
	V Value
}

type Closure struct {
	Fn  *ssa.Function
	Env []Value
}

type Bad struct{}

// RType is the engine's reflect.Type / *abi.Type stand-in.
type RType struct{ T types.Type }

// SymStr is a string of concrete length whose bytes may be symbolic.
// Elements are int64 (0..255) or *term.T of sort BV8.
type SymStr struct{ B []Value }

// SymElemPtr is &a[i] for symbolic i over a backing []Value (bounds already checked on this path).
type SymElemPtr struct {
	Arr    []Value
	Idx    *term.T // BV64
	w      int
	signed bool
}

// unsafePtr wraps things converted to unsafe.Pointer.
type unsafePtr struct{ v Value }

// sliceData is the result of unsafe.SliceData / unsafe.StringData.
type sliceData struct {
	s   []Value
	str Value
}

func isSym(v Value) bool {
	_, ok := v.(*term.T)
	return ok
}

// ---- integer type info ----

type intInfo struct {
	w      int
	signed bool
}

func basicOf(t types.Type) *types.Basic {
	b, _ := t.Underlying().(*types.Basic)
	return b
}

func intInfoOf(t types.Type) (intInfo, bool) {
	b := basicOf(t)
	if b == nil {
		return intInfo{}, false
	}
	switch b.Kind() {
	case types.Int, types.Int64, types.UntypedInt:
		return intInfo{64, true}, true
	case types.Int8:
		return intInfo{8, true}, true
	case types.Int16:
		return intInfo{16, true}, true
	case types.Int32, types.UntypedRune:
		return intInfo{32, true}, true
	case types.Uint, types.Uint64, types.Uintptr:
		return intInfo{64, false}, true
	case types.Uint8:
		return intInfo{8, false}, true
	case types.Uint16:
		return intInfo{16, false}, true
	case types.Uint32:
		return intInfo{32, false}, true
	}
	return intInfo{}, false
}

// norm canonicalises bits to the int64 representation of (w, signed).
func (ii intInfo) norm(v int64) int64 {
	switch ii.w {
	case 64:
		return v
	case 32:
		if ii.signed {
			return int64(int32(v))
		}
		return int64(uint32(v))
	case 16:
		if ii.signed {
			return int64(int16(v))
		}
		return int64(uint16(v))
	case 8:
		if ii.signed {
			return int64(int8(v))
		}
		return int64(uint8(v))
	}
	panic("norm")
}

func isFloat(t types.Type) (int, bool) {
	b := basicOf(t)
	if b == nil {
		return 0, false
	}
	switch b.Kind() {
	case types.Float64, types.UntypedFloat:
		return 64, true
	case types.Float32:
		return 32, true
	}
	return 0, false
}

func isString(t types.Type) bool {
	b := basicOf(t)
	return b != nil && b.Info()&types.IsString != 0
}

func isBool(t types.Type) bool {
	b := basicOf(t)
	return b != nil && b.Info()&types.IsBoolean != 0
}

func isComplex(t types.Type) bool {
	b := basicOf(t)
	return b != nil && b.Info()&types.IsComplex != 0
}

// ---- zero values ----

func zero(t types.Type) Value {
	switch t := t.(type) {
	case *types.Basic:
		if t.Kind() == types.UntypedNil {
			panic("untyped nil has no zero value")
		}
		if t.Info()&types.IsUntyped != 0 {
			t = types.Default(t).(*types.Basic)
		}
		switch {
		case t.Info()&types.IsBoolean != 0:
			return false
		case t.Info()&types.IsInteger != 0:
			return int64(0)
		case t.Info()&types.IsFloat != 0:
			return float64(0)
		case t.Info()&types.IsComplex != 0:
			return complex128(0)
		case t.Info()&types.IsString != 0:
			return ""
		case t.Kind() == types.UnsafePointer:
			return unsafePtr{nil}
		}
		panic(fmt.Sprint("zero for unexpected type:", t))
	case *types.Pointer:
		return (*Value)(nil)
	case *types.Array:
		a := make(Array, t.Len())
		for i := range a {
			a[i] = zero(t.Elem())
		}
		return a
	case *types.Named:
		return zero(t.Underlying())
	case *types.Alias:
		return zero(types.Unalias(t))
	case *types.Interface:
		return Iface{}
	case *types.Slice:
		return []Value(nil)
	case *types.Struct:
		s := make(Struct, t.NumFields())
		for i := range s {
			s[i] = zero(t.Field(i).Type())
		}
		return s
	case *types.Tuple:
		if t.Len() == 1 {
			return zero(t.At(0).Type())
		}
		s := make(Tuple, t.Len())
		for i := range s {
			s[i] = zero(t.At(i).Type())
		}
		return s
	case *types.Chan:
		return (*chanVal)(nil)
	case *types.Map:
		return (*Map)(nil)
	case *types.Signature:
		return (*ssa.Function)(nil)
	case *types.TypeParam:
		panic("zero of type parameter")
	}
	panic(fmt.Sprint("zero: unexpected ", t))
}

// chanVal is an opaque channel value (channels are data only; operations on them are unsupported).
type chanVal struct{ t types.Type }

// copyVal makes a copy of aggregate values (structs/arrays have value semantics).
func copyVal(v Value) Value {
	switch v := v.(type) {
	case Struct:
		c := make(Struct, len(v))
		for i := range v {
			c[i] = copyVal(v[i])
		}
		return c
	case Array:
		c := make(Array, len(v))
		for i := range v {
			c[i] = copyVal(v[i])
		}
		return c
	}
	return v
}

// load returns a copy of the value in *addr.
func load(addr *Value) Value {
	return copyVal(*addr)
}

// store stores v into *addr, preserving the identity of nested cells (field/element pointers stay valid).
func store(addr *Value, v Value) {
	switch rhs := v.(type) {
	case Struct:
		if lhs, ok := (*addr).(Struct); ok && len(lhs) == len(rhs) {
			for i := range lhs {
				store(&lhs[i], rhs[i])
			}
			return
		}
		*addr = copyVal(v)
	case Array:
		if lhs, ok := (*addr).(Array); ok && len(lhs) == len(rhs) {
			for i := range lhs {
				store(&lhs[i], rhs[i])
			}
			return
		}
		*addr = copyVal(v)
	default:
		*addr = v
	}
}

// ---- debugging ----

func ValueString(v Value) string {
	var sb strings.Builder
	writeValue(&sb, v, 0)
	return sb.String()
}

func writeValue(sb *strings.Builder, v Value, depth int) {
	if depth > 6 {
		sb.WriteString("…")
		return
	}
	switch v := v.(type) {
	case nil:
		sb.WriteString("<nil>")
	case bool, int64, float64, complex128:
		fmt.Fprintf(sb, "%v", v)
	case string:
		fmt.Fprintf(sb, "%q", v)
	case *term.T:
		s := v.String()
		if len(s) > 80 {
			s = s[:80] + "…"
		}
		sb.WriteString(s)
	case *SymStr:
		sb.WriteString("sym\"")
		for _, b := range v.B {
			if c, ok := b.(int64); ok {
				if c >= 32 && c < 127 {
					sb.WriteByte(byte(c))
				} else {
					fmt.Fprintf(sb, "\\x%02x", c)
				}
			} else {
				sb.WriteString("?")
			}
		}
		sb.WriteString("\"")
	case *Value:
		if v == nil {
			sb.WriteString("nil")
		} else {
			sb.WriteString("&")
			writeValue(sb, *v, depth+1)
		}
	case Struct:
		sb.WriteString("{")
		for i, e := range v {
			if i > 0 {
				sb.WriteString(" ")
			}
			writeValue(sb, e, depth+1)
		}
		sb.WriteString("}")
	case Array:
		sb.WriteString("[")
		for i, e := range v {
			if i > 0 {
				sb.WriteString(" ")
			}
			writeValue(sb, e, depth+1)
		}
		sb.WriteString("]")
	case []Value:
		sb.WriteString("[]{")
		for i, e := range v {
			if i > 0 {
				sb.WriteString(" ")
			}
			writeValue(sb, e, depth+1)
		}
		sb.WriteString("}")
	case Iface:
		if v.T == nil {
			sb.WriteString("iface(nil)")
		} else {
			fmt.Fprintf(sb, "(%s)", v.T)
			writeValue(sb, v.V, depth+1)
		}
	case *Map:
		if v == nil {
			sb.WriteString("map(nil)")
			return
		}
		sb.WriteString("map[")
		for i := range v.keys {
			if i > 0 {
				sb.WriteString(" ")
			}
			writeValue(sb, v.keys[i], depth+1)
			sb.WriteString(":")
			writeValue(sb, v.vals[i], depth+1)
		}
		sb.WriteString("]")
	case Tuple:
		sb.WriteString("(")
		for i, e := range v {
			if i > 0 {
				sb.WriteString(", ")
			}
			writeValue(sb, e, depth+1)
		}
		sb.WriteString(")")
	case *ssa.Function:
		if v == nil {
			sb.WriteString("func(nil)")
		} else {
			sb.WriteString(v.String())
		}
	case *Closure:
		sb.WriteString("closure:" + v.Fn.String())
	default:
		fmt.Fprintf(sb, "<%T>", v)
	}
}

func f32(f float64) float64 { return float64(float32(f)) }

var _ = math.Abs
