package interp

import (
	"fmt"
	"go/types"
	"sort"
	"strings"

	"golang.org/x/tools/go/ssa"
)

// Virtual file system used by os.ReadFile / filepath.Walk / filepath.Abs intrinsics.

const (
	vfsFile = 1 + iota
	vfsDir
	vfsDanglingLink
	vfsUnreadableFile
)

type vfsEntry struct {
	kind    int
	content Value
}

type vfsState struct {
	cwd  string
	ents map[string]*vfsEntry
}

const vfsRoot = "/vroot"

func (in *Interp) vfsGet() *vfsState {
	if in.vfs == nil {
		in.vfs = &vfsState{cwd: vfsRoot, ents: map[string]*vfsEntry{"/": {kind: vfsDir}, vfsRoot: {kind: vfsDir}}}
		if in.cfg.VfsCwd != "" {
			in.vfs.cwd = in.cfg.VfsCwd
			in.vfs.mkdirAll(in.cfg.VfsCwd)
		}
		for p, content := range in.cfg.VfsFiles {
			in.vfs.mkdirAll(dirPath(p))
			in.vfs.ents[p] = &vfsEntry{kind: vfsFile, content: content}
		}
	}
	return in.vfs
}

func cleanPath(p string) string {
	if p == "" {
		return "."
	}
	rooted := strings.HasPrefix(p, "/")
	parts := strings.Split(p, "/")
	var out []string
	for _, s := range parts {
		switch s {
		case "", ".":
		case "..":
			if len(out) > 0 && out[len(out)-1] != ".." {
				out = out[:len(out)-1]
			} else if !rooted {
				out = append(out, "..")
			}
		default:
			out = append(out, s)
		}
	}
	r := strings.Join(out, "/")
	if rooted {
		return "/" + r
	}
	if r == "" {
		return "."
	}
	return r
}

func joinPath(elems []string) string {
	var ne []string
	for _, e := range elems {
		if e != "" {
			ne = append(ne, e)
		}
	}
	if len(ne) == 0 {
		return ""
	}
	return cleanPath(strings.Join(ne, "/"))
}

func basePath(p string) string {
	if p == "" {
		return "."
	}
	for len(p) > 0 && p[len(p)-1] == '/' {
		p = p[:len(p)-1]
	}
	if i := strings.LastIndexByte(p, '/'); i >= 0 {
		p = p[i+1:]
	}
	if p == "" {
		return "/"
	}
	return p
}

func dirPath(p string) string {
	i := strings.LastIndexByte(p, '/')
	if i < 0 {
		return "."
	}
	return cleanPath(p[:i+1])
}

func (v *vfsState) abs(p string) string {
	if strings.HasPrefix(p, "/") {
		return cleanPath(p)
	}
	return cleanPath(v.cwd + "/" + p)
}

func (v *vfsState) mkdirAll(abs string) {
	if abs == "/" || abs == "" {
		return
	}
	if e, ok := v.ents[abs]; ok && e.kind == vfsDir {
		return
	}
	v.mkdirAll(dirPath(abs))
	v.ents[abs] = &vfsEntry{kind: vfsDir}
}

func (in *Interp) concStr(v Value, what string) string {
	s, ok := v.(string)
	if !ok {
		in.unsupported(what + " with symbolic path")
	}
	return s
}

func (in *Interp) vfsAPI(api string, args []Value) Value {
	switch api {
	case "vfsReset":
		in.vfs = nil
		in.vfsGet()
		return nil
	case "vfsCwd":
		return in.vfsGet().cwd
	}
	v := in.vfsGet()
	p := v.abs(in.concStr(args[0], api))
	switch api {
	case "vfsWriteFile":
		v.mkdirAll(dirPath(p))
		v.ents[p] = &vfsEntry{kind: vfsFile, content: args[1]}
	case "vfsMkdir":
		v.mkdirAll(p)
	case "vfsDangling":
		v.mkdirAll(dirPath(p))
		v.ents[p] = &vfsEntry{kind: vfsDanglingLink}
	case "vfsUnreadable":
		v.mkdirAll(dirPath(p))
		v.ents[p] = &vfsEntry{kind: vfsUnreadableFile}
	}
	return nil
}

// vfsError builds &fs.PathError{Op, Path, Err: vfsErr{msg, kind}}.
func (in *Interp) vfsError(op, path, msg string, notExist bool) Value {
	fsPkg := in.prog.ImportedPackage("io/fs")
	if fsPkg == nil {
		in.unsupported("io/fs not loaded")
	}
	pe := fsPkg.Type("PathError").Type()
	if in.cfg.VfsErrType == nil {
		in.unsupported("harness package does not declare vfsErr")
	}
	var inner Value = Iface{T: in.cfg.VfsErrType, V: Struct{msg, notExist}}
	var st Value = Struct{op, path, inner}
	return Iface{T: types.NewPointer(pe), V: &st}
}

// vfsResolveSym: a path with symbolic bytes names an existing entry only if it equals that entry's absolute path
// byte for byte (paths with symbolic bytes have been cleaned by the interpreted filepath.Abs before they get here).
func (in *Interp) vfsResolveSym(pathv Value) (string, bool) {
	v := in.vfsGet()
	var cands []string
	for p := range v.ents {
		if len(p) == strLen(pathv) {
			cands = append(cands, p)
		}
	}
	sort.Strings(cands)
	for _, p := range cands {
		if in.branchVal(in.strEq(pathv, p)) {
			return p, true
		}
	}
	return "", false
}

func (in *Interp) vfsReadFile(fn *ssa.Function, pathv Value) Value {
	v := in.vfsGet()
	if _, isSym := pathv.(*SymStr); isSym {
		p, ok := in.vfsResolveSym(pathv)
		if !ok {
			// the not-found error carries the (symbolic) name
			fsPkg := in.prog.ImportedPackage("io/fs")
			pe := fsPkg.Type("PathError").Type()
			var inner Value = Iface{T: in.cfg.VfsErrType, V: Struct{"no such file or directory", true}}
			var st Value = Struct{"open", pathv, inner}
			return Tuple{[]Value(nil), Iface{T: types.NewPointer(pe), V: &st}}
		}
		pathv = p
	}
	name := in.concStr(pathv, "os.ReadFile")
	p := v.abs(name)
	e, ok := v.ents[p]
	if !ok || e.kind == vfsDanglingLink {
		return Tuple{[]Value(nil), in.vfsError("open", name, "no such file or directory", true)}
	}
	// a path component that is a file
	switch e.kind {
	case vfsDir:
		return Tuple{[]Value(nil), in.vfsError("read", name, "is a directory", false)}
	case vfsUnreadableFile:
		return Tuple{[]Value(nil), in.vfsError("open", name, "permission denied", false)}
	}
	b := strBytes(e.content)
	out := make([]Value, len(b))
	copy(out, b)
	return Tuple{out, Iface{}}
}

func (in *Interp) vfsAbs(pathv Value) Value {
	v := in.vfsGet()
	p := in.concStr(pathv, "filepath.Abs")
	return Tuple{v.abs(p), Iface{}}
}

func (v *vfsState) children(abs string) []string {
	var names []string
	prefix := abs
	if !strings.HasSuffix(prefix, "/") {
		prefix += "/"
	}
	for p := range v.ents {
		if strings.HasPrefix(p, prefix) && p != abs {
			rest := p[len(prefix):]
			if rest != "" && !strings.Contains(rest, "/") {
				names = append(names, rest)
			}
		}
	}
	sort.Strings(names)
	return names
}

func (in *Interp) fileInfo(name string, dir bool, link bool) Value {
	if in.cfg.FileInfoType == nil {
		in.unsupported("harness package does not declare vfsFileInfo")
	}
	return Iface{T: in.cfg.FileInfoType, V: Struct{name, dir, link}}
}

// vfsWalk implements path/filepath.Walk over the virtual tree.
func (in *Interp) vfsWalk(caller *frame, fn *ssa.Function, rootv, cb Value) Value {
	v := in.vfsGet()
	root := in.concStr(rootv, "filepath.Walk")
	callCB := func(path string, info Value, err Value) Iface {
		r := in.call(caller, cb, []Value{path, info, err})
		return r.(Iface)
	}
	e, ok := v.ents[v.abs(root)]
	if !ok {
		r := callCB(root, Iface{}, in.vfsError("lstat", root, "no such file or directory", true))
		return in.walkResult(r)
	}
	var walk func(path string, e *vfsEntry) Iface
	walk = func(path string, e *vfsEntry) Iface {
		if e.kind != vfsDir {
			return callCB(path, in.fileInfo(basePath(path), false, e.kind == vfsDanglingLink), Iface{})
		}
		names := v.children(v.abs(path))
		if r := callCB(path, in.fileInfo(basePath(path), true, false), Iface{}); r.T != nil {
			return r
		}
		for _, name := range names {
			filename := joinPath([]string{path, name})
			ce := v.ents[v.abs(filename)]
			if r := walk(filename, ce); r.T != nil {
				if ce.kind != vfsDir || !in.isSkipDir(r) {
					return r
				}
			}
		}
		return Iface{}
	}
	return in.walkResult(walk(root, e))
}

func (in *Interp) isSkipDir(r Iface) bool {
	pkg := in.prog.ImportedPackage("io/fs")
	if pkg == nil {
		return false
	}
	for _, n := range []string{"SkipDir", "SkipAll"} {
		if g, ok := pkg.Members[n].(*ssa.Global); ok {
			if cell, ok := in.globals[g]; ok {
				if ci, ok := (*cell).(Iface); ok && ci.T != nil && r.T != nil && types.Identical(ci.T, r.T) {
					if in.equals(ci.T, ci.V, r.V) == true {
						return true
					}
				}
			}
		}
	}
	return false
}

func (in *Interp) walkResult(r Iface) Value {
	if r.T != nil && in.isSkipDir(r) {
		return Iface{}
	}
	return r
}

var _ = fmt.Sprint
