package interp

import (
	"fmt"
	"go/constant"
	"go/token"
	"go/types"
	"math"
	"unicode/utf8"

	"golang.org/x/tools/go/ssa"

	"symgo/term"
)

// constValue returns the engine value of an SSA constant.
func constValue(c *ssa.Const) Value {
	if c.Value == nil {
		return zero(c.Type())
	}
	if t, ok := c.Type().Underlying().(*types.Basic); ok {
		info := t.Info()
		switch {
		case info&types.IsBoolean != 0:
			return constant.BoolVal(c.Value)
		case info&types.IsInteger != 0:
			ii, _ := intInfoOf(t)
			if ii.signed {
				return ii.norm(c.Int64())
			}
			return ii.norm(int64(c.Uint64()))
		case info&types.IsFloat != 0:
			f := c.Float64()
			if t.Kind() == types.Float32 {
				return f32(f)
			}
			return f
		case info&types.IsComplex != 0:
			return c.Complex128()
		case info&types.IsString != 0:
			if c.Value.Kind() == constant.String {
				return constant.StringVal(c.Value)
			}
			return string(rune(c.Int64()))
		}
	}
	panic(fmt.Sprintf("constValue: %s", c))
}

// ---- lifting to terms ----

func (in *Interp) intTerm(v Value, w int) *term.T {
	switch v := v.(type) {
	case *term.T:
		return v
	case int64:
		return in.st.BVC(uint64(v), w)
	}
	panic(fmt.Sprintf("intTerm: %T", v))
}

func (in *Interp) boolTerm(v Value) *term.T {
	switch v := v.(type) {
	case *term.T:
		return v
	case bool:
		return in.st.BoolC(v)
	}
	panic(fmt.Sprintf("boolTerm: %T", v))
}

func (in *Interp) fpTerm(v Value, w int) *term.T {
	switch v := v.(type) {
	case *term.T:
		return v
	case float64:
		if w == 32 {
			return in.st.FPC(v, term.FP32)
		}
		return in.st.FPC(v, term.FP64)
	}
	panic(fmt.Sprintf("fpTerm: %T", v))
}

// fromTerm converts constant terms back to concrete values.
func (in *Interp) fromTerm(t *term.T, ii intInfo) Value {
	if t.IsConst() {
		switch t.Sort.K {
		case term.KBool:
			return t.C == 1
		case term.KBV:
			return ii.norm(int64(t.C))
		case term.KFP:
			if t.Sort.W == 32 {
				return float64(math.Float32frombits(uint32(t.C)))
			}
			return math.Float64frombits(t.C)
		}
	}
	return t
}

func (in *Interp) boolVal(t *term.T) Value {
	if t.IsConst() {
		return t.C == 1
	}
	return t
}

func (in *Interp) not(v Value) Value {
	switch v := v.(type) {
	case bool:
		return !v
	case *term.T:
		return in.boolVal(in.st.Not(v))
	}
	panic(fmt.Sprintf("not: %T", v))
}

// ---- binop ----

func (in *Interp) binop(op token.Token, tx, ty types.Type, x, y Value) Value {
	if ii, ok := intInfoOf(tx); ok {
		return in.intBinop(op, ii, ty, x, y)
	}
	if w, ok := isFloat(tx); ok {
		return in.floatBinop(op, w, x, y)
	}
	if isString(tx) {
		return in.strBinop(op, x, y)
	}
	switch op {
	case token.EQL:
		return in.eqnil(tx, x, y)
	case token.NEQ:
		return in.not(in.eqnil(tx, x, y))
	}
	if isComplex(tx) {
		a, b := x.(complex128), y.(complex128)
		switch op {
		case token.ADD:
			return a + b
		case token.SUB:
			return a - b
		case token.MUL:
			return a * b
		case token.QUO:
			return a / b
		}
	}
	panic(fmt.Sprintf("invalid binary op: %T %s %T (%s)", x, op, y, tx))
}

func (in *Interp) intBinop(op token.Token, ii intInfo, ty types.Type, x, y Value) Value {
	xc, xok := x.(int64)
	yc, yok := y.(int64)
	if op == token.SHL || op == token.SHR {
		yi, _ := intInfoOf(ty)
		if xok && yok {
			if yi.signed && yc < 0 {
				in.throwRuntime("negative shift amount")
			}
			sh := uint64(yc)
			if op == token.SHL {
				if sh >= 64 {
					return int64(0)
				}
				return ii.norm(xc << sh)
			}
			if ii.signed {
				if sh >= 64 {
					sh = 63
				}
				return ii.norm(xc >> sh)
			}
			if sh >= 64 {
				return int64(0)
			}
			ux := uint64(xc)
			if ii.w < 64 {
				ux &= (uint64(1) << uint(ii.w)) - 1
			}
			return ii.norm(int64(ux >> sh))
		}
		xt := in.intTerm(x, ii.w)
		yt := in.intTerm(y, yi.w)
		if yi.signed {
			neg := in.st.Cmp(term.OSLt, yt, in.st.BVC(0, yi.w))
			if in.branch(neg) {
				in.throwRuntime("negative shift amount")
			}
		}
		// bring shift amount to width of x; amounts >= w give 0 / sign fill in SMT-LIB as in Go
		var sh *term.T
		if yi.w > ii.w {
			// saturate
			big := in.st.Cmp(term.OULe, in.st.BVC(uint64(ii.w), yi.w), yt)
			sh = in.st.Ite(big, in.st.BVC(uint64(ii.w), ii.w), in.st.Extract(yt, 0, ii.w))
		} else {
			sh = in.st.ZExt(yt, ii.w)
		}
		o := term.OShl
		if op == token.SHR {
			if ii.signed {
				o = term.OAShr
			} else {
				o = term.OLShr
			}
		}
		return in.fromTerm(in.st.BinBV(o, xt, sh), ii)
	}
	if xok && yok {
		switch op {
		case token.ADD:
			return ii.norm(xc + yc)
		case token.SUB:
			return ii.norm(xc - yc)
		case token.MUL:
			return ii.norm(xc * yc)
		case token.QUO:
			if yc == 0 {
				in.throwRuntime("integer divide by zero")
			}
			if ii.signed {
				if yc == -1 {
					return ii.norm(-xc)
				}
				return ii.norm(xc / yc)
			}
			return ii.norm(int64(uint64(xc) / uint64(yc)))
		case token.REM:
			if yc == 0 {
				in.throwRuntime("integer divide by zero")
			}
			if ii.signed {
				if yc == -1 {
					return int64(0)
				}
				return ii.norm(xc % yc)
			}
			return ii.norm(int64(uint64(xc) % uint64(yc)))
		case token.AND:
			return xc & yc
		case token.OR:
			return xc | yc
		case token.XOR:
			return ii.norm(xc ^ yc)
		case token.AND_NOT:
			return xc &^ yc
		case token.EQL:
			return xc == yc
		case token.NEQ:
			return xc != yc
		case token.LSS:
			if ii.signed {
				return xc < yc
			}
			return uint64(xc) < uint64(yc)
		case token.LEQ:
			if ii.signed {
				return xc <= yc
			}
			return uint64(xc) <= uint64(yc)
		case token.GTR:
			if ii.signed {
				return xc > yc
			}
			return uint64(xc) > uint64(yc)
		case token.GEQ:
			if ii.signed {
				return xc >= yc
			}
			return uint64(xc) >= uint64(yc)
		}
		panic(fmt.Sprintf("intBinop: bad op %s", op))
	}
	xt := in.intTerm(x, ii.w)
	yt := in.intTerm(y, ii.w)
	st := in.st
	switch op {
	case token.ADD:
		return in.fromTerm(st.BinBV(term.OAdd, xt, yt), ii)
	case token.SUB:
		return in.fromTerm(st.BinBV(term.OSub, xt, yt), ii)
	case token.MUL:
		return in.fromTerm(st.BinBV(term.OMul, xt, yt), ii)
	case token.QUO, token.REM:
		z := st.Eq(yt, st.BVC(0, ii.w))
		if in.branch(z) {
			in.throwRuntime("integer divide by zero")
		}
		var o term.Op
		switch {
		case op == token.QUO && ii.signed:
			o = term.OSDiv
		case op == token.QUO:
			o = term.OUDiv
		case ii.signed:
			o = term.OSRem
		default:
			o = term.OURem
		}
		return in.fromTerm(st.BinBV(o, xt, yt), ii)
	case token.AND:
		return in.fromTerm(st.BinBV(term.OBAnd, xt, yt), ii)
	case token.OR:
		return in.fromTerm(st.BinBV(term.OBOr, xt, yt), ii)
	case token.XOR:
		return in.fromTerm(st.BinBV(term.OBXor, xt, yt), ii)
	case token.AND_NOT:
		return in.fromTerm(st.BinBV(term.OBAnd, xt, st.BNot(yt)), ii)
	case token.EQL:
		return in.boolVal(st.Eq(xt, yt))
	case token.NEQ:
		return in.boolVal(st.Not(st.Eq(xt, yt)))
	case token.LSS:
		if ii.signed {
			return in.boolVal(st.Cmp(term.OSLt, xt, yt))
		}
		return in.boolVal(st.Cmp(term.OULt, xt, yt))
	case token.LEQ:
		if ii.signed {
			return in.boolVal(st.Cmp(term.OSLe, xt, yt))
		}
		return in.boolVal(st.Cmp(term.OULe, xt, yt))
	case token.GTR:
		if ii.signed {
			return in.boolVal(st.Cmp(term.OSLt, yt, xt))
		}
		return in.boolVal(st.Cmp(term.OULt, yt, xt))
	case token.GEQ:
		if ii.signed {
			return in.boolVal(st.Cmp(term.OSLe, yt, xt))
		}
		return in.boolVal(st.Cmp(term.OULe, yt, xt))
	}
	panic(fmt.Sprintf("intBinop(sym): bad op %s", op))
}

func (in *Interp) floatBinop(op token.Token, w int, x, y Value) Value {
	xc, xok := x.(float64)
	yc, yok := y.(float64)
	if xok && yok {
		r32 := func(f float64) float64 {
			if w == 32 {
				return f32(f)
			}
			return f
		}
		switch op {
		case token.ADD:
			if w == 32 {
				return float64(float32(xc) + float32(yc))
			}
			return xc + yc
		case token.SUB:
			if w == 32 {
				return float64(float32(xc) - float32(yc))
			}
			return xc - yc
		case token.MUL:
			if w == 32 {
				return float64(float32(xc) * float32(yc))
			}
			return xc * yc
		case token.QUO:
			if w == 32 {
				return float64(float32(xc) / float32(yc))
			}
			return r32(xc / yc)
		case token.EQL:
			return xc == yc
		case token.NEQ:
			return xc != yc
		case token.LSS:
			return xc < yc
		case token.LEQ:
			return xc <= yc
		case token.GTR:
			return xc > yc
		case token.GEQ:
			return xc >= yc
		}
		panic("floatBinop: bad op")
	}
	xt, yt := in.fpTerm(x, w), in.fpTerm(y, w)
	st := in.st
	ii := intInfo{}
	switch op {
	case token.ADD:
		return in.fromTerm(st.FBin(term.OFAdd, xt, yt), ii)
	case token.SUB:
		return in.fromTerm(st.FBin(term.OFSub, xt, yt), ii)
	case token.MUL:
		return in.fromTerm(st.FBin(term.OFMul, xt, yt), ii)
	case token.QUO:
		return in.fromTerm(st.FBin(term.OFDiv, xt, yt), ii)
	case token.EQL:
		return in.boolVal(st.FCmp(term.OFEq, xt, yt))
	case token.NEQ:
		return in.boolVal(st.Not(st.FCmp(term.OFEq, xt, yt)))
	case token.LSS:
		return in.boolVal(st.FCmp(term.OFLt, xt, yt))
	case token.LEQ:
		return in.boolVal(st.FCmp(term.OFLe, xt, yt))
	case token.GTR:
		return in.boolVal(st.FCmp(term.OFLt, yt, xt))
	case token.GEQ:
		return in.boolVal(st.FCmp(term.OFLe, yt, xt))
	}
	panic("floatBinop(sym): bad op")
}

// ---- strings ----

func strLen(v Value) int {
	switch v := v.(type) {
	case string:
		return len(v)
	case *SymStr:
		return len(v.B)
	}
	panic(fmt.Sprintf("strLen: %T", v))
}

// strBytes returns the byte cells of a string value.
func strBytes(v Value) []Value {
	switch v := v.(type) {
	case string:
		out := make([]Value, len(v))
		for i := 0; i < len(v); i++ {
			out[i] = int64(v[i])
		}
		return out
	case *SymStr:
		return v.B
	}
	panic(fmt.Sprintf("strBytes: %T", v))
}

// mkStr builds a string value from byte cells, collapsing to a Go string when all are concrete.
func mkStr(b []Value) Value {
	for _, c := range b {
		if _, ok := c.(int64); !ok {
			cp := make([]Value, len(b))
			copy(cp, b)
			return &SymStr{B: cp}
		}
	}
	bs := make([]byte, len(b))
	for i, c := range b {
		bs[i] = byte(c.(int64))
	}
	return string(bs)
}

func strAt(v Value, i int) Value {
	switch v := v.(type) {
	case string:
		return int64(v[i])
	case *SymStr:
		return v.B[i]
	}
	panic("strAt")
}

func strSlice(v Value, lo, hi int) Value {
	switch v := v.(type) {
	case string:
		return v[lo:hi]
	case *SymStr:
		return mkStr(v.B[lo:hi])
	}
	panic("strSlice")
}

func strConcat(x, y Value) Value {
	if xs, ok := x.(string); ok {
		if ys, ok := y.(string); ok {
			return xs + ys
		}
		if xs == "" {
			return y
		}
	}
	if ys, ok := y.(string); ok && ys == "" {
		return x
	}
	xb, yb := strBytes(x), strBytes(y)
	out := make([]Value, 0, len(xb)+len(yb))
	out = append(out, xb...)
	out = append(out, yb...)
	return &SymStr{B: out}
}

func (in *Interp) byteEq(a, b Value) *term.T {
	ac, aok := a.(int64)
	bc, bok := b.(int64)
	if aok && bok {
		return in.st.BoolC(ac == bc)
	}
	return in.st.Eq(in.intTerm(a, 8), in.intTerm(b, 8))
}

func (in *Interp) strEq(x, y Value) Value {
	if xs, ok := x.(string); ok {
		if ys, ok := y.(string); ok {
			return xs == ys
		}
	}
	if strLen(x) != strLen(y) {
		return false
	}
	xb, yb := strBytes(x), strBytes(y)
	r := in.st.True
	for i := range xb {
		r = in.st.And(r, in.byteEq(xb[i], yb[i]))
		if r.IsFalse() {
			return false
		}
	}
	return in.boolVal(r)
}

// strLess returns x < y (lexicographic, bytewise) as a Value.
func (in *Interp) strLess(x, y Value, orEqual bool) Value {
	if xs, ok := x.(string); ok {
		if ys, ok := y.(string); ok {
			if orEqual {
				return xs <= ys
			}
			return xs < ys
		}
	}
	xb, yb := strBytes(x), strBytes(y)
	n := len(xb)
	if len(yb) < n {
		n = len(yb)
	}
	// build from the end: less(i) = x[i]<y[i] || (x[i]==y[i] && less(i+1))
	var tail *term.T
	if len(xb) < len(yb) || (orEqual && len(xb) == len(yb)) {
		tail = in.st.True
	} else {
		tail = in.st.False
	}
	for i := n - 1; i >= 0; i-- {
		a, b := in.intTerm(xb[i], 8), in.intTerm(yb[i], 8)
		lt := in.st.Cmp(term.OULt, a, b)
		eq := in.st.Eq(a, b)
		tail = in.st.Or(lt, in.st.And(eq, tail))
	}
	return in.boolVal(tail)
}

func (in *Interp) strBinop(op token.Token, x, y Value) Value {
	switch op {
	case token.ADD:
		return strConcat(x, y)
	case token.EQL:
		return in.strEq(x, y)
	case token.NEQ:
		return in.not(in.strEq(x, y))
	case token.LSS:
		return in.strLess(x, y, false)
	case token.LEQ:
		return in.strLess(x, y, true)
	case token.GTR:
		return in.strLess(y, x, false)
	case token.GEQ:
		return in.strLess(y, x, true)
	}
	panic("strBinop: bad op " + op.String())
}

// ---- equality ----

func (in *Interp) eqnil(t types.Type, x, y Value) Value {
	switch t.Underlying().(type) {
	case *types.Map:
		return (x.(*Map) == nil) == (y.(*Map) == nil) && (x.(*Map) == nil || x.(*Map) == y.(*Map))
	case *types.Signature:
		return isNilFunc(x) == isNilFunc(y)
	case *types.Slice:
		return (x.([]Value) == nil) == (y.([]Value) == nil)
	}
	return in.equals(t, x, y)
}

func isNilFunc(v Value) bool {
	switch v := v.(type) {
	case *ssa.Function:
		return v == nil
	case *Closure:
		return v == nil
	case *ssa.Builtin:
		return v == nil
	}
	panic(fmt.Sprintf("isNilFunc: %T", v))
}

// equals implements Go's == for type t; the result may be symbolic.
func (in *Interp) equals(t types.Type, x, y Value) Value {
	switch x := x.(type) {
	case bool, *term.T, int64, float64:
		if t != nil {
			if ii, ok := intInfoOf(t); ok {
				return in.intBinop(token.EQL, ii, nil, x, y)
			}
			if w, ok := isFloat(t); ok {
				return in.floatBinop(token.EQL, w, x, y)
			}
			if isBool(t) {
				xb, xok := x.(bool)
				yb, yok := y.(bool)
				if xok && yok {
					return xb == yb
				}
				return in.boolVal(in.st.Eq(in.boolTerm(x), in.boolTerm(y)))
			}
		}
		// no static type: decide from dynamic values
		switch xv := x.(type) {
		case bool:
			if yb, ok := y.(bool); ok {
				return xv == yb
			}
			return in.boolVal(in.st.Eq(in.boolTerm(x), in.boolTerm(y)))
		case int64:
			if yc, ok := y.(int64); ok {
				return xv == yc
			}
			yt := y.(*term.T)
			return in.boolVal(in.st.Eq(in.st.BVC(uint64(xv), int(yt.Sort.W)), yt))
		case float64:
			if yc, ok := y.(float64); ok {
				return xv == yc
			}
			yt := y.(*term.T)
			return in.boolVal(in.st.FCmp(term.OFEq, in.fpTerm(xv, int(yt.Sort.W)), yt))
		case *term.T:
			switch xv.Sort.K {
			case term.KBool:
				return in.boolVal(in.st.Eq(xv, in.boolTerm(y)))
			case term.KBV:
				return in.boolVal(in.st.Eq(xv, in.intTerm(y, int(xv.Sort.W))))
			default:
				return in.boolVal(in.st.FCmp(term.OFEq, xv, in.fpTerm(y, int(xv.Sort.W))))
			}
		}
	case complex128:
		return x == y.(complex128)
	case string, *SymStr:
		return in.strEq(x, y)
	case *Value:
		yp, ok := y.(*Value)
		return ok && x == yp
	case *SymElemPtr:
		return false
	case *chanVal:
		return x == y.(*chanVal)
	case unsafePtr:
		yp, ok := y.(unsafePtr)
		if !ok {
			return false
		}
		if nilUnsafe(x) || nilUnsafe(yp) {
			return nilUnsafe(x) && nilUnsafe(yp)
		}
		return x.v == yp.v
	case Struct:
		ys := y.(Struct)
		var st *types.Struct
		if t != nil {
			st, _ = t.Underlying().(*types.Struct)
		}
		var acc Value = true
		for i := range x {
			var ft types.Type
			if st != nil {
				if st.Field(i).Name() == "_" {
					continue
				}
				ft = st.Field(i).Type()
			}
			acc = in.and(acc, in.equals(ft, x[i], ys[i]))
			if acc == false {
				return false
			}
		}
		return acc
	case Array:
		ya := y.(Array)
		var et types.Type
		if t != nil {
			if at, ok := t.Underlying().(*types.Array); ok {
				et = at.Elem()
			}
		}
		var acc Value = true
		for i := range x {
			acc = in.and(acc, in.equals(et, x[i], ya[i]))
			if acc == false {
				return false
			}
		}
		return acc
	case Iface:
		yi := y.(Iface)
		if x.T == nil || yi.T == nil {
			return x.T == nil && yi.T == nil
		}
		if !types.Identical(x.T, yi.T) {
			return false
		}
		if !types.Comparable(x.T) {
			in.throwRuntime("runtime error: comparing uncomparable type " + x.T.String())
		}
		return in.equals(x.T, x.V, yi.V)
	case RType:
		yr, ok := y.(RType)
		return ok && types.Identical(x.T, yr.T)
	case *Map:
		ym, ok := y.(*Map)
		return ok && x == ym
	case *ssa.Function, *Closure, *ssa.Builtin:
		return isNilFunc(x) && isNilFunc(y)
	case []Value:
		return x == nil && y.([]Value) == nil
	}
	panic(fmt.Sprintf("equals: unhandled %T (%v)", x, t))
}

func (in *Interp) and(a, b Value) Value {
	if ab, ok := a.(bool); ok {
		if !ab {
			return false
		}
		return b
	}
	if bb, ok := b.(bool); ok {
		if !bb {
			return false
		}
		return a
	}
	return in.boolVal(in.st.And(a.(*term.T), b.(*term.T)))
}

// ---- unop ----

func (in *Interp) unop(instr *ssa.UnOp, x Value) Value {
	switch instr.Op {
	case token.SUB:
		if ii, ok := intInfoOf(instr.X.Type()); ok {
			if c, ok := x.(int64); ok {
				return ii.norm(-c)
			}
			return in.fromTerm(in.st.Neg(x.(*term.T)), ii)
		}
		if _, ok := isFloat(instr.X.Type()); ok {
			if c, ok := x.(float64); ok {
				return -c
			}
			return in.st.FNeg(x.(*term.T))
		}
		return -x.(complex128)
	case token.MUL:
		return in.loadPtr(x)
	case token.NOT:
		return in.not(x)
	case token.XOR:
		ii, _ := intInfoOf(instr.X.Type())
		if c, ok := x.(int64); ok {
			return ii.norm(^c)
		}
		return in.fromTerm(in.st.BNot(x.(*term.T)), ii)
	case token.ARROW:
		in.unsupported("channel receive")
	}
	panic(fmt.Sprintf("invalid unary op %s %T", instr.Op, x))
}

func (in *Interp) loadPtr(p Value) Value {
	switch p := p.(type) {
	case *Value:
		if p == nil {
			in.throwNilDeref()
		}
		if in.frozen != nil {
			in.noteRead(p)
		}
		return load(p)
	case *SymElemPtr:
		return in.loadSymElem(p)
	case unsafePtr:
		if pv, ok := p.v.(*Value); ok && pv != nil {
			return load(pv)
		}
		in.throwNilDeref()
	}
	panic(fmt.Sprintf("loadPtr: %T", p))
}

// loadSymElem builds an ite chain over the elements (which must be scalars of one sort).
func (in *Interp) loadSymElem(p *SymElemPtr) Value {
	n := len(p.Arr)
	if n == 0 {
		panic("loadSymElem: empty")
	}
	// determine sort from first symbolic or concrete element
	var w int
	kind := 0 // 1 int, 2 bool
	for _, e := range p.Arr {
		switch e := e.(type) {
		case int64:
			kind = 1
		case bool:
			kind = 2
		case *term.T:
			if e.Sort.K == term.KBV {
				kind = 1
				w = int(e.Sort.W)
			} else if e.Sort.K == term.KBool {
				kind = 2
			}
		default:
			kind = 0
		}
		if kind == 0 {
			break
		}
	}
	if kind == 0 {
		return in.loadSymElemGrouped(p)
	}
	if kind == 1 && w == 0 {
		w = p.elemWidth()
	}
	st := in.st
	lift := func(e Value) *term.T {
		if kind == 2 {
			return in.boolTerm(e)
		}
		return in.intTerm(e, w)
	}
	// compress over runs of equal elements: result = ite(idx < end_0, v0, ite(idx < end_1, v1, ...))
	type run struct {
		end int
		v   *term.T
	}
	var runs []run
	for i := 0; i < n; i++ {
		t := lift(p.Arr[i])
		if len(runs) > 0 && runs[len(runs)-1].v == t {
			runs[len(runs)-1].end = i + 1
		} else {
			runs = append(runs, run{i + 1, t})
		}
	}
	res := runs[len(runs)-1].v
	for i := len(runs) - 2; i >= 0; i-- {
		c := st.Cmp(term.OULt, p.Idx, st.BVC(uint64(runs[i].end), 64))
		res = st.Ite(c, runs[i].v, res)
	}
	if kind == 2 {
		return in.boolVal(res)
	}
	if res.IsConst() {
		return int64(res.C) // note: sign not recoverable here; tables of this kind are unsigned bytes/ints
	}
	return res
}

func (p *SymElemPtr) elemWidth() int { return p.w }

// sameRef: two cells hold indistinguishable reference-like values (used to fork once per distinct table entry).
func sameRef(a, b Value) bool {
	switch x := a.(type) {
	case []Value:
		y, ok := b.([]Value)
		if !ok || len(x) != len(y) || (x == nil) != (y == nil) {
			return false
		}
		return len(x) == 0 || &x[0] == &y[0]
	case *Value:
		y, ok := b.(*Value)
		return ok && x == y
	case *Map:
		y, ok := b.(*Map)
		return ok && x == y
	case int64:
		y, ok := b.(int64)
		return ok && x == y
	case bool:
		y, ok := b.(bool)
		return ok && x == y
	case string:
		y, ok := b.(string)
		return ok && x == y
	case Iface:
		y, ok := b.(Iface)
		if !ok {
			return false
		}
		if x.T == nil || y.T == nil {
			return x.T == nil && y.T == nil
		}
		return types.Identical(x.T, y.T) && sameRef(x.V, y.V)
	case Struct:
		y, ok := b.(Struct)
		if !ok || len(x) != len(y) {
			return false
		}
		for i := range x {
			if !sameRef(x[i], y[i]) {
				return false
			}
		}
		return true
	}
	return false
}

// loadSymElemGrouped loads a[i] for symbolic i over non-scalar cells by forking once per distinct value.
func (in *Interp) loadSymElemGrouped(p *SymElemPtr) Value {
	n := len(p.Arr)
	type group struct {
		rep  int
		idxs []int
	}
	var groups []*group
	for i := 0; i < n; i++ {
		placed := false
		for _, g := range groups {
			if sameRef(p.Arr[g.rep], p.Arr[i]) {
				g.idxs = append(g.idxs, i)
				placed = true
				break
			}
		}
		if !placed {
			groups = append(groups, &group{rep: i, idxs: []int{i}})
		}
	}
	if len(groups) > in.path.ConcLimit {
		i := in.concretize(p.Idx, 0, int64(n))
		return load(&p.Arr[i])
	}
	st := in.st
	// smallest groups first: the big default group (e.g. nil entries) needs no membership term
	for a := 1; a < len(groups); a++ {
		for b := a; b > 0 && len(groups[b].idxs) < len(groups[b-1].idxs); b-- {
			groups[b], groups[b-1] = groups[b-1], groups[b]
		}
	}
	for gi, g := range groups {
		if gi == len(groups)-1 {
			return load(&p.Arr[g.rep])
		}
		member := st.False
		// runs of consecutive indices
		for k := 0; k < len(g.idxs); {
			j := k
			for j+1 < len(g.idxs) && g.idxs[j+1] == g.idxs[j]+1 {
				j++
			}
			lo, hi := g.idxs[k], g.idxs[j]
			var c *term.T
			if lo == hi {
				c = st.Eq(p.Idx, st.BVC(uint64(lo), 64))
			} else {
				c = st.And(st.Cmp(term.OULe, st.BVC(uint64(lo), 64), p.Idx), st.Cmp(term.OULe, p.Idx, st.BVC(uint64(hi), 64)))
			}
			member = st.Or(member, c)
			k = j + 1
		}
		if in.branch(member) {
			return load(&p.Arr[g.rep])
		}
	}
	panic("unreachable")
}

// ---- conversions ----

func (in *Interp) conv(tDst, tSrc types.Type, x Value) Value {
	uSrc := tSrc.Underlying()
	uDst := tDst.Underlying()

	switch uSrc := uSrc.(type) {
	case *types.Pointer:
		if b, ok := uDst.(*types.Basic); ok && b.Kind() == types.UnsafePointer {
			return unsafePtr{x}
		}
	case *types.Slice:
		// []byte or []rune -> string
		if eb, ok := uSrc.Elem().Underlying().(*types.Basic); ok {
			switch eb.Kind() {
			case types.Byte:
				return mkStr(x.([]Value))
			case types.Rune:
				var out []Value
				for _, r := range x.([]Value) {
					out = append(out, strBytes(in.runeToString(r))...)
				}
				return mkStr(out)
			}
		}
	case *types.Basic:
		if uSrc.Kind() == types.UnsafePointer {
			up, _ := x.(unsafePtr)
			switch uDst.(type) {
			case *types.Pointer:
				if up.v == nil {
					return (*Value)(nil)
				}
				if p, ok := up.v.(*Value); ok {
					return p
				}
				in.unsupported("unsafe.Pointer conversion of " + fmt.Sprintf("%T", up.v))
			case *types.Basic:
				return x
			}
		}
		if isString(uSrc) {
			switch uDst := uDst.(type) {
			case *types.Slice:
				switch uDst.Elem().Underlying().(*types.Basic).Kind() {
				case types.Byte:
					b := strBytes(x)
					out := make([]Value, len(b))
					copy(out, b)
					return out
				case types.Rune:
					return in.strToRunes(x)
				}
			case *types.Basic:
				if isString(uDst) {
					return x
				}
			}
		}
		if ii, ok := intInfoOf(uSrc); ok {
			if db, ok := uDst.(*types.Basic); ok {
				if db.Info()&types.IsString != 0 {
					return in.runeToString(in.widenToRune(x, ii))
				}
				if di, ok := intInfoOf(db); ok {
					return in.convInt(x, ii, di)
				}
				if w, ok := isFloat(db); ok {
					if c, ok := x.(int64); ok {
						var f float64
						if ii.signed {
							f = float64(c)
						} else {
							f = float64(uint64(c))
						}
						if w == 32 {
							return f32(f)
						}
						return f
					}
					sort := term.FP64
					if w == 32 {
						sort = term.FP32
					}
					return in.st.BVToFP(x.(*term.T), sort, ii.signed)
				}
				if db.Kind() == types.UnsafePointer {
					return unsafePtr{x}
				}
			}
		}
		if w, ok := isFloat(uSrc); ok {
			if db, ok := uDst.(*types.Basic); ok {
				if di, ok := intInfoOf(db); ok {
					return in.floatToInt(x, w, di)
				}
				if dw, ok := isFloat(db); ok {
					if c, ok := x.(float64); ok {
						if dw == 32 {
							return f32(c)
						}
						return c
					}
					sort := term.FP64
					if dw == 32 {
						sort = term.FP32
					}
					return in.st.FToFP(x.(*term.T), sort)
				}
			}
		}
		if isComplex(uSrc) {
			return x
		}
		if isBool(uSrc) && isBool(uDst) {
			return x
		}
	}
	panic(fmt.Sprintf("unsupported conversion: %s -> %s, dynamic type %T", tSrc, tDst, x))
}

func (in *Interp) convInt(x Value, src, dst intInfo) Value {
	if c, ok := x.(int64); ok {
		return dst.norm(c)
	}
	t := x.(*term.T)
	var r *term.T
	switch {
	case dst.w == src.w:
		r = t
	case dst.w < src.w:
		r = in.st.Extract(t, 0, dst.w)
	case src.signed:
		r = in.st.SExt(t, dst.w)
	default:
		r = in.st.ZExt(t, dst.w)
	}
	return in.fromTerm(r, dst)
}

// floatToInt implements Go's float->int conversion with amd64 semantics for out-of-range values (documented assumption).
func (in *Interp) floatToInt(x Value, w int, di intInfo) Value {
	if c, ok := x.(float64); ok {
		if di.signed {
			switch di.w {
			case 64:
				return int64(c)
			case 32:
				return int64(int32(c))
			case 16:
				return int64(int16(c))
			case 8:
				return int64(int8(c))
			}
		}
		switch di.w {
		case 64:
			return int64(uint64(c))
		case 32:
			return int64(uint32(c))
		case 16:
			return int64(uint16(c))
		default:
			return int64(uint8(c))
		}
	}
	t := x.(*term.T)
	st := in.st
	if di.signed && di.w == 64 {
		// in range: -2^63 <= trunc(x) < 2^63, else 0x8000000000000000
		lo := st.FPC(-9223372036854775808.0, t.Sort)
		hi := st.FPC(9223372036854775808.0, t.Sort)
		inr := st.And(st.FCmp(term.OFLe, lo, t), st.FCmp(term.OFLt, t, hi))
		return st.Ite(inr, st.FToBV(t, 64, true), st.BVC(0x8000000000000000, 64))
	}
	in.unsupported("symbolic float to non-int64 conversion")
	return nil
}

func (in *Interp) widenToRune(x Value, ii intInfo) Value {
	if c, ok := x.(int64); ok {
		return c
	}
	t := x.(*term.T)
	if ii.w == 32 {
		return t
	}
	if ii.w < 32 {
		if ii.signed {
			return in.st.SExt(t, 32)
		}
		return in.st.ZExt(t, 32)
	}
	// wider: out-of-range becomes U+FFFD; approximate by extract after checking range via fork
	hi := in.st.Cmp(term.OULt, in.st.BVC(0x10FFFF, ii.w), t)
	if in.branch(hi) {
		return int64(utf8.RuneError)
	}
	return in.st.Extract(t, 0, 32)
}

// runeToString implements string(rune) for a possibly symbolic rune (BV32 or int64).
func (in *Interp) runeToString(r Value) Value {
	if c, ok := r.(int64); ok {
		if c < 0 || c > 0x10FFFF {
			return string(utf8.RuneError)
		}
		return string(rune(c))
	}
	t := r.(*term.T)
	st := in.st
	if t.Sort.W < 32 {
		t = st.ZExt(t, 32)
	}
	c := func(v uint64) *term.T { return st.BVC(v, 32) }
	b8 := func(x *term.T) Value { return in.fromTerm(st.Extract(x, 0, 8), intInfo{8, false}) }
	or := func(k uint64, x *term.T) *term.T { return st.BinBV(term.OBOr, c(k), x) }
	shr := func(x *term.T, n uint64) *term.T { return st.BinBV(term.OLShr, x, c(n)) }
	and := func(x *term.T, m uint64) *term.T { return st.BinBV(term.OBAnd, x, c(m)) }
	if in.branch(st.Cmp(term.OULt, t, c(0x80))) {
		return mkStr([]Value{b8(t)})
	}
	if in.branch(st.Cmp(term.OULt, t, c(0x800))) {
		return mkStr([]Value{b8(or(0xC0, shr(t, 6))), b8(or(0x80, and(t, 0x3F)))})
	}
	// surrogates and out of range -> RuneError
	sur := st.And(st.Cmp(term.OULe, c(0xD800), t), st.Cmp(term.OULe, t, c(0xDFFF)))
	if in.branch(sur) {
		return string(utf8.RuneError)
	}
	if in.branch(st.Cmp(term.OULt, t, c(0x10000))) {
		return mkStr([]Value{b8(or(0xE0, shr(t, 12))), b8(or(0x80, and(shr(t, 6), 0x3F))), b8(or(0x80, and(t, 0x3F)))})
	}
	if in.branch(st.Cmp(term.OULe, t, c(0x10FFFF))) {
		return mkStr([]Value{b8(or(0xF0, shr(t, 18))), b8(or(0x80, and(shr(t, 12), 0x3F))), b8(or(0x80, and(shr(t, 6), 0x3F))), b8(or(0x80, and(t, 0x3F)))})
	}
	return string(utf8.RuneError)
}

// strToRunes implements []rune(s).
func (in *Interp) strToRunes(x Value) Value {
	if s, ok := x.(string); ok {
		var out []Value
		for _, r := range s {
			out = append(out, int64(r))
		}
		if out == nil {
			out = []Value{}
		}
		return out
	}
	out := []Value{}
	pos := 0
	n := strLen(x)
	for pos < n {
		r, size := in.decodeRune(x, pos)
		out = append(out, r)
		pos += size
	}
	return out
}

// decodeRune decodes one rune of the (symbolic) string x at pos, forking as needed.
// It mirrors unicode/utf8.DecodeRuneInString.
func (in *Interp) decodeRune(x Value, pos int) (Value, int) {
	b := strBytes(x)
	n := len(b) - pos
	st := in.st
	bt := func(i int) *term.T { return in.intTerm(b[pos+i], 8) }
	c8 := func(v uint64) *term.T { return st.BVC(v, 8) }
	inRange := func(t *term.T, lo, hi uint64) *term.T {
		return st.And(st.Cmp(term.OULe, c8(lo), t), st.Cmp(term.OULe, t, c8(hi)))
	}
	z32 := func(t *term.T) *term.T { return st.ZExt(t, 32) }
	c32 := func(v uint64) *term.T { return st.BVC(v, 32) }
	and32 := func(t *term.T, m uint64) *term.T { return st.BinBV(term.OBAnd, z32(t), c32(m)) }
	shl := func(t *term.T, k uint64) *term.T { return st.BinBV(term.OShl, t, c32(k)) }
	or := func(a, c *term.T) *term.T { return st.BinBV(term.OBOr, a, c) }
	val := func(t *term.T) Value { return in.fromTerm(t, intInfo{32, true}) }
	rerr := int64(utf8.RuneError)

	b0 := bt(0)
	if in.branch(st.Cmp(term.OULt, b0, c8(0x80))) {
		return val(z32(b0)), 1
	}
	// 2-byte: C2..DF
	if in.branch(inRange(b0, 0xC2, 0xDF)) {
		if n < 2 {
			return rerr, 1
		}
		if !in.branch(inRange(bt(1), 0x80, 0xBF)) {
			return rerr, 1
		}
		return val(or(shl(and32(b0, 0x1F), 6), and32(bt(1), 0x3F))), 2
	}
	// 3-byte
	if in.branch(inRange(b0, 0xE0, 0xEF)) {
		if n < 2 {
			return rerr, 1
		}
		lo, hi := uint64(0x80), uint64(0xBF)
		var second *term.T
		if in.branch(st.Eq(b0, c8(0xE0))) {
			second = inRange(bt(1), 0xA0, hi)
		} else if in.branch(st.Eq(b0, c8(0xED))) {
			second = inRange(bt(1), lo, 0x9F)
		} else {
			second = inRange(bt(1), lo, hi)
		}
		if !in.branch(second) {
			return rerr, 1
		}
		if n < 3 {
			return rerr, 1
		}
		if !in.branch(inRange(bt(2), 0x80, 0xBF)) {
			return rerr, 1
		}
		return val(or(or(shl(and32(b0, 0x0F), 12), shl(and32(bt(1), 0x3F), 6)), and32(bt(2), 0x3F))), 3
	}
	// 4-byte
	if in.branch(inRange(b0, 0xF0, 0xF4)) {
		if n < 2 {
			return rerr, 1
		}
		var second *term.T
		if in.branch(st.Eq(b0, c8(0xF0))) {
			second = inRange(bt(1), 0x90, 0xBF)
		} else if in.branch(st.Eq(b0, c8(0xF4))) {
			second = inRange(bt(1), 0x80, 0x8F)
		} else {
			second = inRange(bt(1), 0x80, 0xBF)
		}
		if !in.branch(second) {
			return rerr, 1
		}
		if n < 3 {
			return rerr, 1
		}
		if !in.branch(inRange(bt(2), 0x80, 0xBF)) {
			return rerr, 1
		}
		if n < 4 {
			return rerr, 1
		}
		if !in.branch(inRange(bt(3), 0x80, 0xBF)) {
			return rerr, 1
		}
		return val(or(or(or(shl(and32(b0, 0x07), 18), shl(and32(bt(1), 0x3F), 12)), shl(and32(bt(2), 0x3F), 6)), and32(bt(3), 0x3F))), 4
	}
	return rerr, 1
}

// nilUnsafe: an unsafe.Pointer that holds nothing, or a nil pointer of any type.
func nilUnsafe(u unsafePtr) bool {
	switch v := u.v.(type) {
	case nil:
		return true
	case *Value:
		return v == nil
	}
	return false
}
