package interp

import (
	"fmt"
	"go/token"
	"go/types"
	"os"
	"strings"
	"sync/atomic"

	"golang.org/x/tools/go/ssa"

	"symgo/smt"
	"symgo/term"
)

// Config is shared (read-only) between workers.
type Config struct {
	Prog         *ssa.Program
	RepoPkgs     []*ssa.Package // re-initialised on every path, in dependency order
	StdInitPkgs  []*ssa.Package // initialised once per worker, in dependency order
	Redirects    map[string]*ssa.Function
	StepBudget   int64
	DepthBudget  int
	MapOrder     string
	SolverKind   string
	TimeoutMs    int
	Embeds       map[string]string // global var full name -> content (go:embed)
	Trace        bool
	VfsErrType   types.Type
	VfsCwd       string            // initial working directory of the virtual file system (default /vroot)
	VfsFiles     map[string]string // absolute path -> content, present in the virtual file system from the start
	Params       map[string]int64
	FileInfoType types.Type
}

var logCounter atomic.Int32

type fnInfo struct {
	idx      map[ssa.Value]int
	nregs    int
	name     string
	kind     int // 0 plain, 1 api, 2 intrinsic, 3 native-when-concrete, 4 redirect
	api      string
	intr     intrinsicFn
	native   nativeFn
	redirect *ssa.Function
	steps    int64
}

type Interp struct {
	cfg                     *Config
	prog                    *ssa.Program
	st                      *term.Store
	solver                  *smt.Solver
	solver2                 *smt.Solver
	globals                 map[*ssa.Global]*Value
	fninfo                  map[*ssa.Function]*fnInfo
	plain                   map[*ssa.Function]*fnInfo
	consts                  map[*ssa.Const]Value
	path                    *Path
	MapOrder                string
	cur                     *frame
	depth                   int
	stdInit                 bool
	initMode                bool
	vfs                     *vfsState
	sibs                    []WorkItem
	qcache                  map[string]qres
	cacheHits               int64
	obligations, discharged int64
	frozen                  map[*Value]bool
	frozenMaps              map[*Map]bool
	sharedWrites            []string
	sharedReads             map[*Value]string
	atomicWritten           map[*Value]string
	inAtomic                bool
	phase                   int
	phases                  map[int]*phaseLog
	syncUses                []string
	pools                   map[*Value][]Value
	testFailed              bool
	openFiles               map[*Value][]Value
	syncMaps                map[*Value]*Map
	pendingGo               []pendingGoroutine
	testMsg                 string
	nondetUses              []string
	// statistics
	FnInstr map[string]int64
}

func NewInterp(cfg *Config) (*Interp, error) {
	in := &Interp{cfg: cfg, prog: cfg.Prog, st: term.NewStore(), globals: map[*ssa.Global]*Value{},
		fninfo: map[*ssa.Function]*fnInfo{}, consts: map[*ssa.Const]Value{}, MapOrder: cfg.MapOrder, FnInstr: map[string]int64{}}
	s, err := smt.New(cfg.SolverKind, cfg.TimeoutMs)
	if err != nil {
		return nil, err
	}
	in.solver = s
	if lf := os.Getenv("SYMGO_SMT_LOG"); lf != "" {
		if f, err := os.Create(fmt.Sprintf("%s.%d", lf, logCounter.Add(1))); err == nil {
			s.Log = f
		}
	}
	return in, nil
}

func (in *Interp) Close() {
	if in.solver != nil {
		in.solver.Close()
	}
	if in.solver2 != nil {
		in.solver2.Close()
	}
}

type deferred struct {
	fn    Value
	args  []Value
	instr *ssa.Defer
	tail  *deferred
}

type frame struct {
	in               *Interp
	caller           *frame
	fn               *ssa.Function
	info             *fnInfo
	block, prevBlock *ssa.BasicBlock
	regs             []Value
	defers           *deferred
	result           Value
	panicking        bool
	panicVal         interface{}
	instr            ssa.Instruction
	phitemps         []Value
}

// targetPanic is a panic of the interpreted program.
type targetPanic struct {
	v    Value
	kind string // "explicit", "runtime", "nil-deref", "index", "slice-bounds", "type-assert", "div-zero", "resource"
	msg  string
	pos  string
}

// pathAbort ends the current path for reasons of the engine.
type pathAbort struct {
	kind string // "assume", "unsupported", "unwind", "violation", "limit"
	msg  string
}

func (in *Interp) posString() string {
	for fr := in.cur; fr != nil; fr = fr.caller {
		if fr.instr != nil && fr.instr.Pos().IsValid() {
			p := in.prog.Fset.Position(fr.instr.Pos())
			return shortPos(p.Filename, p.Line, p.Column)
		}
	}
	return ""
}

// repoPosString returns the innermost position that lies in a non-stdlib, non-harness file.
func (in *Interp) stackString(max int) string {
	var sb strings.Builder
	n := 0
	for fr := in.cur; fr != nil && n < max; fr = fr.caller {
		if fr.instr != nil && fr.instr.Pos().IsValid() {
			p := in.prog.Fset.Position(fr.instr.Pos())
			fmt.Fprintf(&sb, "%s@%s ", fr.fn.Name(), shortPos(p.Filename, p.Line, p.Column))
			n++
		}
	}
	return sb.String()
}

func shortPos(file string, line, col int) string {
	if i := strings.Index(file, "/repo/"); i >= 0 {
		file = file[i+6:]
	} else if i := strings.Index(file, "/src/"); i >= 0 {
		file = "std:" + file[i+5:]
	}
	return fmt.Sprintf("%s:%d:%d", file, line, col)
}

func (in *Interp) throw(kind, msg string, v Value) {
	panic(&targetPanic{v: v, kind: kind, msg: msg, pos: in.posString() + " [" + in.stackString(6) + "]"})
}

func (in *Interp) throwRuntime(msg string) {
	kind := "runtime"
	switch {
	case strings.Contains(msg, "index out of range"):
		kind = "index"
	case strings.Contains(msg, "slice bounds"):
		kind = "slice-bounds"
	case strings.Contains(msg, "divide by zero"):
		kind = "div-zero"
	case strings.Contains(msg, "interface conversion"):
		kind = "type-assert"
	}
	in.throw(kind, msg, Iface{T: types.Typ[types.String], V: "runtime error: " + msg})
}

func (in *Interp) throwNilDeref() {
	in.throw("nil-deref", "invalid memory address or nil pointer dereference", Iface{T: types.Typ[types.String], V: "runtime error: invalid memory address or nil pointer dereference"})
}

func (in *Interp) unsupported(msg string) {
	panic(&pathAbort{kind: "unsupported", msg: msg + " at " + in.posString() + " [" + in.stackString(5) + "]"})
}

// ssaInfo: register layout for interpreting fn's own body (used by intrinsics that fall back to the library source).
func (in *Interp) ssaInfo(fn *ssa.Function) *fnInfo {
	fi := &fnInfo{idx: map[ssa.Value]int{}, name: fn.String()}
	n := 0
	for _, p := range fn.Params {
		fi.idx[p] = n
		n++
	}
	for _, fv := range fn.FreeVars {
		fi.idx[fv] = n
		n++
	}
	for _, b := range fn.Blocks {
		for _, ins := range b.Instrs {
			if v, ok := ins.(ssa.Value); ok {
				fi.idx[v] = n
				n++
			}
		}
	}
	fi.nregs = n
	return fi
}

func (in *Interp) info(fn *ssa.Function) *fnInfo {
	if fi, ok := in.fninfo[fn]; ok {
		return fi
	}
	fi := &fnInfo{idx: map[ssa.Value]int{}, name: fn.String()}
	n := 0
	for _, p := range fn.Params {
		fi.idx[p] = n
		n++
	}
	for _, fv := range fn.FreeVars {
		fi.idx[fv] = n
		n++
	}
	for _, b := range fn.Blocks {
		for _, ins := range b.Instrs {
			if v, ok := ins.(ssa.Value); ok {
				fi.idx[v] = n
				n++
			}
		}
	}
	fi.nregs = n
	in.classify(fn, fi)
	in.fninfo[fn] = fi
	return fi
}

func (fr *frame) get(key ssa.Value) Value {
	switch key := key.(type) {
	case nil:
		return nil
	case *ssa.Const:
		in := fr.in
		if v, ok := in.consts[key]; ok {
			return v
		}
		v := constValue(key)
		in.consts[key] = v
		return v
	case *ssa.Global:
		if r, ok := fr.in.globals[key]; ok {
			return r
		}
		// global of a package that was not initialised: allocate zero lazily
		cell := zero(deref(key.Type()))
		fr.in.globals[key] = &cell
		return &cell
	case *ssa.Function:
		return key
	case *ssa.Builtin:
		return key
	}
	i, ok := fr.info.idx[key]
	if !ok {
		panic(fmt.Sprintf("get: no register for %T %s in %s", key, key.Name(), fr.fn))
	}
	return fr.regs[i]
}

func (fr *frame) set(key ssa.Value, v Value) {
	fr.regs[fr.info.idx[key]] = v
}

func deref(t types.Type) types.Type {
	if p, ok := t.Underlying().(*types.Pointer); ok {
		return p.Elem()
	}
	panic("deref: not a pointer: " + t.String())
}

type continuation int

const (
	kNext continuation = iota
	kReturn
	kJump
)

func (in *Interp) step(fr *frame) {
	p := in.path
	p.Steps++
	if p.Steps > in.cfg.StepBudget && !in.initMode {
		var st []*fnInfo
		for f := in.cur; f != nil; f = f.caller {
			st = append([]*fnInfo{f.info}, st...)
		}
		p.stackAtAbort = st
		panic(&pathAbort{kind: "unwind", msg: fmt.Sprintf("step budget %d exceeded in loop of %s at %s [%s]", in.cfg.StepBudget, p.hottestLoop(), in.posString(), in.stackString(6))})
	}
}

func (in *Interp) visitInstr(fr *frame, instr ssa.Instruction) continuation {
	fr.instr = instr
	in.step(fr)
	switch instr := instr.(type) {
	case *ssa.DebugRef:

	case *ssa.UnOp:
		fr.set(instr, in.unop(instr, fr.get(instr.X)))

	case *ssa.BinOp:
		fr.set(instr, in.binop(instr.Op, instr.X.Type(), instr.Y.Type(), fr.get(instr.X), fr.get(instr.Y)))

	case *ssa.Call:
		fn, args := in.prepareCall(fr, &instr.Call)
		fr.set(instr, in.call(fr, fn, args))

	case *ssa.ChangeInterface:
		fr.set(instr, fr.get(instr.X))

	case *ssa.ChangeType:
		fr.set(instr, fr.get(instr.X))

	case *ssa.Convert:
		fr.set(instr, in.conv(instr.Type(), instr.X.Type(), fr.get(instr.X)))

	case *ssa.SliceToArrayPointer:
		x := fr.get(instr.X).([]Value)
		n := instr.Type().Underlying().(*types.Pointer).Elem().Underlying().(*types.Array).Len()
		if int64(len(x)) < n {
			in.throwRuntime("cannot convert slice to array pointer: length too small")
		}
		if x == nil {
			fr.set(instr, (*Value)(nil))
		} else {
			var v Value = Array(x[:n:n])
			fr.set(instr, &v)
		}

	case *ssa.MakeInterface:
		fr.set(instr, Iface{T: instr.X.Type(), V: fr.get(instr.X)})

	case *ssa.Extract:
		fr.set(instr, fr.get(instr.Tuple).(Tuple)[instr.Index])

	case *ssa.Slice:
		fr.set(instr, in.slice(instr, fr.get(instr.X), fr.get(instr.Low), fr.get(instr.High), fr.get(instr.Max)))

	case *ssa.Return:
		switch len(instr.Results) {
		case 0:
		case 1:
			fr.result = fr.get(instr.Results[0])
		default:
			res := make(Tuple, len(instr.Results))
			for i, r := range instr.Results {
				res[i] = fr.get(r)
			}
			fr.result = res
		}
		fr.block = nil
		return kReturn

	case *ssa.RunDefers:
		fr.runDefers()

	case *ssa.Panic:
		v := fr.get(instr.X)
		in.throw("explicit", in.panicMessage(v), v)

	case *ssa.Send:
		in.unsupported("channel send")

	case *ssa.Store:
		in.storePtr(fr.get(instr.Addr), fr.get(instr.Val))

	case *ssa.If:
		succ := 1
		if in.branchVal(fr.get(instr.Cond)) {
			succ = 0
		}
		if fr.block.Succs[succ].Index <= fr.block.Index {
			in.path.backEdge(fr.info)
		}
		fr.prevBlock, fr.block = fr.block, fr.block.Succs[succ]
		return kJump

	case *ssa.Jump:
		if fr.block.Succs[0].Index <= fr.block.Index {
			in.path.backEdge(fr.info)
		}
		fr.prevBlock, fr.block = fr.block, fr.block.Succs[0]
		return kJump

	case *ssa.Defer:
		fn, args := in.prepareCall(fr, &instr.Call)
		defers := &fr.defers
		if into := fr.get(instr.DeferStack); into != nil {
			defers = into.(**deferred)
		}
		*defers = &deferred{fn: fn, args: args, instr: instr, tail: *defers}

	case *ssa.Go:
		// goroutines are run to completion, one at a time, when the spawning code waits for them (sync.WaitGroup.Wait);
		// the order in which they run is the nondeterminism that is explored (see runPendingGo)
		fn, args := in.prepareCall(fr, &instr.Call)
		in.pendingGo = append(in.pendingGo, pendingGoroutine{fn: fn, args: args})

	case *ssa.MakeChan:
		fr.set(instr, &chanVal{t: instr.Type()})

	case *ssa.Alloc:
		addr := new(Value)
		*addr = zero(deref(instr.Type()))
		fr.set(instr, addr)
		in.path.Allocs++

	case *ssa.MakeSlice:
		n := in.allocSize(fr.get(instr.Len), "makeslice: len out of range")
		c := in.allocSize(fr.get(instr.Cap), "makeslice: cap out of range")
		if n > c {
			in.throwRuntime("makeslice: cap out of range")
		}
		sl := make([]Value, c)
		tElt := instr.Type().Underlying().(*types.Slice).Elem()
		for i := range sl {
			sl[i] = zero(tElt)
		}
		fr.set(instr, sl[:n])

	case *ssa.MakeMap:
		fr.set(instr, newMap(instr.Type().Underlying().(*types.Map).Key()))

	case *ssa.Range:
		x := fr.get(instr.X)
		switch x := x.(type) {
		case *Map:
			fr.set(instr, in.newMapIter(x))
		case string, *SymStr:
			fr.set(instr, &strIter{s: x})
		default:
			panic(fmt.Sprintf("cannot range over %T", x))
		}

	case *ssa.Next:
		switch it := fr.get(instr.Iter).(type) {
		case *mapIter:
			fr.set(instr, in.mapNext(it))
		case *strIter:
			fr.set(instr, in.strNext(it))
		}

	case *ssa.FieldAddr:
		p := in.asPtr(fr.get(instr.X))
		if p == nil {
			in.throwNilDeref()
		}
		fr.set(instr, &(*p).(Struct)[instr.Field])

	case *ssa.Field:
		fr.set(instr, fr.get(instr.X).(Struct)[instr.Field])

	case *ssa.IndexAddr:
		x := fr.get(instr.X)
		idx := fr.get(instr.Index)
		var backing []Value
		switch x := x.(type) {
		case []Value:
			backing = x
		case *Value:
			if x == nil {
				in.throwNilDeref()
			}
			backing = (*x).(Array)
		default:
			panic(fmt.Sprintf("unexpected x type in IndexAddr: %T", x))
		}
		ii, _ := intInfoOf(instr.Index.Type())
		if ic, ok := idx.(int64); ok {
			if ic < 0 || ic >= int64(len(backing)) || (!ii.signed && uint64(ic) >= uint64(len(backing))) {
				in.throwRuntime(fmt.Sprintf("index out of range [%d] with length %d", ic, len(backing)))
			}
			fr.set(instr, &backing[ic])
		} else {
			it := in.idxTerm(idx.(*term.T), ii)
			in.boundsFork(it, len(backing))
			if onlyLoaded(instr) {
				w, sg := elemInfo(instr.Type())
				fr.set(instr, &SymElemPtr{Arr: backing, Idx: it, w: w, signed: sg})
			} else {
				i := in.concretize(it, 0, int64(len(backing)))
				fr.set(instr, &backing[i])
			}
		}

	case *ssa.Index:
		x := fr.get(instr.X)
		idx := fr.get(instr.Index)
		ii, _ := intInfoOf(instr.Index.Type())
		switch x := x.(type) {
		case Array:
			if ic, ok := idx.(int64); ok {
				if ic < 0 || ic >= int64(len(x)) {
					in.throwRuntime(fmt.Sprintf("index out of range [%d] with length %d", ic, len(x)))
				}
				fr.set(instr, x[ic])
			} else {
				it := in.idxTerm(idx.(*term.T), ii)
				in.boundsFork(it, len(x))
				w, sg := elemInfo(types.NewPointer(instr.Type()))
				fr.set(instr, in.loadSymElem(&SymElemPtr{Arr: x, Idx: it, w: w, signed: sg}))
			}
		case string, *SymStr:
			n := strLen(x)
			if ic, ok := idx.(int64); ok {
				if ic < 0 || ic >= int64(n) {
					in.throwRuntime(fmt.Sprintf("index out of range [%d] with length %d", ic, n))
				}
				fr.set(instr, strAt(x, int(ic)))
			} else {
				it := in.idxTerm(idx.(*term.T), ii)
				in.boundsFork(it, n)
				fr.set(instr, in.loadSymElem(&SymElemPtr{Arr: strBytes(x), Idx: it, w: 8}))
			}
		default:
			panic(fmt.Sprintf("unexpected x type in Index: %T", x))
		}

	case *ssa.Lookup:
		m := fr.get(instr.X).(*Map)
		v, ok := in.mapLookup(m, fr.get(instr.Index))
		if !ok {
			v = zero(instr.X.Type().Underlying().(*types.Map).Elem())
		}
		if instr.CommaOk {
			fr.set(instr, Tuple{v, ok})
		} else {
			fr.set(instr, v)
		}

	case *ssa.MapUpdate:
		in.mapUpdate(fr.get(instr.Map).(*Map), fr.get(instr.Key), copyVal(fr.get(instr.Value)))

	case *ssa.TypeAssert:
		fr.set(instr, in.typeAssert(instr, fr.get(instr.X).(Iface)))

	case *ssa.MakeClosure:
		bindings := make([]Value, len(instr.Bindings))
		for i, b := range instr.Bindings {
			bindings[i] = fr.get(b)
		}
		fr.set(instr, &Closure{instr.Fn.(*ssa.Function), bindings})

	case *ssa.Phi:
		panic("unreachable: phi")

	case *ssa.Select:
		in.unsupported("select")

	default:
		panic(fmt.Sprintf("unexpected instruction: %T", instr))
	}
	return kNext
}

func (in *Interp) asPtr(v Value) *Value {
	switch v := v.(type) {
	case *Value:
		return v
	case unsafePtr:
		if p, ok := v.v.(*Value); ok {
			return p
		}
		return nil
	case *SymElemPtr:
		i := in.concretize(v.Idx, 0, int64(len(v.Arr)))
		return &v.Arr[i]
	}
	panic(fmt.Sprintf("asPtr: %T", v))
}

func (in *Interp) storePtr(p Value, v Value) {
	switch p := p.(type) {
	case *Value:
		if p == nil {
			in.throwNilDeref()
		}
		in.noteWrite(p)
		store(p, v)
	case *SymElemPtr:
		i := in.concretize(p.Idx, 0, int64(len(p.Arr)))
		in.noteWrite(&p.Arr[i])
		store(&p.Arr[i], v)
	default:
		panic(fmt.Sprintf("storePtr: %T", p))
	}
}

// idxTerm widens an index term to BV64.
func (in *Interp) idxTerm(t *term.T, ii intInfo) *term.T {
	if int(t.Sort.W) == 64 {
		return t
	}
	if ii.signed {
		return in.st.SExt(t, 64)
	}
	return in.st.ZExt(t, 64)
}

// boundsFork forks on 0 <= idx < n (unsigned compare on 64 bits) and panics on the out-of-range side.
func (in *Interp) boundsFork(idx *term.T, n int) {
	inb := in.st.Cmp(term.OULt, idx, in.st.BVC(uint64(n), 64))
	if !in.branch(inb) {
		in.throwRuntime(fmt.Sprintf("index out of range [symbolic] with length %d", n))
	}
}

func onlyLoaded(instr *ssa.IndexAddr) bool {
	refs := instr.Referrers()
	if refs == nil {
		return false
	}
	for _, r := range *refs {
		u, ok := r.(*ssa.UnOp)
		if !ok || u.Op != token.MUL {
			if _, isDbg := r.(*ssa.DebugRef); isDbg {
				continue
			}
			return false
		}
	}
	return true
}

func scalarCells(cells []Value) bool {
	if len(cells) == 0 {
		return false
	}
	for _, c := range cells {
		switch c.(type) {
		case int64, bool, *term.T:
		default:
			return false
		}
	}
	return true
}

func elemInfo(ptrType types.Type) (int, bool) {
	et := deref(ptrType)
	if ii, ok := intInfoOf(et); ok {
		return ii.w, ii.signed
	}
	return 0, false
}

// allocSize turns a (possibly symbolic) size into a concrete int.
// Sizes of 2^32 elements and more end the path as a resource-exhaustion crash; symbolic sizes between the
// concretisation limit and 2^32 are inconclusive (the harness has to bound them).
func (in *Interp) allocSize(v Value, msg string) int {
	const maxAlloc = 1 << 22
	const huge = int64(1) << 32
	resource := func(what string) {
		in.throw("resource", what, Iface{T: types.Typ[types.String], V: "runtime: out of memory / " + msg})
	}
	if c, ok := v.(int64); ok {
		if c < 0 {
			in.throwRuntime(msg)
		}
		if c >= huge {
			resource(fmt.Sprintf("allocation of %d elements", c))
		}
		if c > maxAlloc {
			panic(&pathAbort{kind: "limit", msg: fmt.Sprintf("allocation of %d elements is beyond the engine's limit at %s", c, in.posString())})
		}
		return int(c)
	}
	t := v.(*term.T)
	if t.Sort.W < 64 {
		t = in.st.SExt(t, 64)
	}
	if in.branch(in.st.Cmp(term.OSLt, t, in.st.BVC(0, 64))) {
		in.throwRuntime(msg)
	}
	lim := int64(in.path.ConcLimit)
	if in.branch(in.st.Cmp(term.OSLt, t, in.st.BVC(uint64(lim), 64))) {
		return int(in.concretize(t, 0, lim))
	}
	if in.branch(in.st.Cmp(term.OSLe, in.st.BVC(uint64(huge), 64), t)) {
		resource("allocation with a symbolic size of at least 2^32 elements")
	}
	panic(&pathAbort{kind: "limit", msg: fmt.Sprintf("symbolic allocation size between %d and 2^32 at %s [%s]", lim, in.posString(), in.stackString(4))})
}

// concretize forks over the feasible values of t, which is known to lie in [lo, hi) on this path.
// The chosen value (as offset from lo) is recorded in the decision vector, so replays need no solver.
func (in *Interp) concretize(t *term.T, lo, hi int64) int64 {
	t = in.simplify(t)
	if t.IsConst() {
		return int64(t.C)
	}
	p := in.path
	w := int(t.Sort.W)
	p.Forks++
	p.SymForks++
	if p.pos < len(p.Prefix) {
		d := p.Prefix[p.pos]
		p.pos++
		p.Decisions = append(p.Decisions, d)
		v := lo + int64(d)
		in.addPC(in.st.Eq(t, in.st.BVC(uint64(v), w)))
		return v
	}
	// frontier: enumerate feasible values with the solver
	var vals []int64
	var models []term.Model
	excl := in.st.True
	for {
		r, m := in.queryWith(t, excl)
		if r == smt.Unsat {
			break
		}
		if r != smt.Sat {
			p.Tainted = true
			panic(&pathAbort{kind: "unsupported", msg: "solver unknown while concretising at " + in.posString()})
		}
		memo := map[int]uint64{}
		full := mergeModel(p.Model, m)
		v := int64(term.Eval(t, full, memo))
		if w < 64 {
			v = intInfo{w, true}.norm(v)
		}
		if v < lo || v >= hi {
			panic(fmt.Sprintf("concretize: model value %d outside [%d,%d) at %s", v, lo, hi, in.posString()))
		}
		vals = append(vals, v)
		models = append(models, full)
		excl = in.st.And(excl, in.st.Not(in.st.Eq(t, in.st.BVC(uint64(v), w))))
		if len(vals) > p.ConcLimit {
			panic(&pathAbort{kind: "limit", msg: fmt.Sprintf("more than %d feasible values in [%d,%d) at %s [%s]", p.ConcLimit, lo, hi, in.posString(), in.stackString(4))})
		}
	}
	if len(vals) == 0 {
		panic(&pathAbort{kind: "infeasible", msg: "no feasible value while concretising"})
	}
	for i := len(vals) - 1; i >= 1; i-- {
		pre := make([]int32, len(p.Decisions)+1)
		copy(pre, p.Decisions)
		pre[len(p.Decisions)] = int32(vals[i] - lo)
		in.sibs = append(in.sibs, WorkItem{Prefix: pre, Model: models[i], Tainted: p.Tainted})
	}
	p.Decisions = append(p.Decisions, int32(vals[0]-lo))
	p.Prefix = p.Decisions
	p.pos = len(p.Decisions)
	if p.ModelOK {
		p.Model = models[0]
	}
	in.addPC(in.st.Eq(t, in.st.BVC(uint64(vals[0]), w)))
	return vals[0]
}

func (in *Interp) slice(instr *ssa.Slice, x, lo, hi, max Value) Value {
	var Len, Cap int
	switch x := x.(type) {
	case string, *SymStr:
		Len = strLen(x)
		Cap = Len
	case []Value:
		Len = len(x)
		Cap = cap(x)
	case *Value:
		if x == nil {
			in.throwNilDeref()
		}
		a := (*x).(Array)
		Len = len(a)
		Cap = len(a)
	}
	conc := func(v Value, def int) int64 {
		if v == nil {
			return int64(def)
		}
		if c, ok := v.(int64); ok {
			return c
		}
		t := in.simplify(v.(*term.T))
		if t.IsConst() {
			return int64(t.C)
		}
		if t.Sort.W < 64 {
			t = in.st.SExt(t, 64)
		}
		// in range 0..Cap else panic
		inb := in.st.Cmp(term.OULe, t, in.st.BVC(uint64(Cap), 64))
		if !in.branch(inb) {
			in.throwRuntime("slice bounds out of range [symbolic]")
		}
		return in.concretize(t, 0, int64(Cap)+1)
	}
	// s[t : t+k] with a symbolic offset t and a constant length k over a string or a read-only table: the result has
	// k cells, each an ite chain over the source (no concretisation of t)
	if lt, ok := lo.(*term.T); ok {
		if ht, ok := hi.(*term.T); ok && max == nil {
			lt, ht = in.simplify(lt), in.simplify(ht)
			if !lt.IsConst() && lt.Sort == ht.Sort {
				if d := in.st.BinBV(term.OSub, ht, lt); d.IsConst() && int64(d.C) >= 0 && int64(d.C) <= 16 {
					var cells []Value
					switch x := x.(type) {
					case string, *SymStr:
						cells = strBytes(x)
					case []Value:
						if scalarCells(x) {
							cells = x
						}
					}
					if cells != nil {
						k := int(d.C)
						l64 := lt
						if l64.Sort.W < 64 {
							l64 = in.st.SExt(l64, 64)
						}
						// bounds: 0 <= t and t + k <= len
						okb := in.st.Cmp(term.OULe, l64, in.st.BVC(uint64(len(cells)-k), 64))
						if len(cells) < k || !in.branch(okb) {
							in.throwRuntime("slice bounds out of range [symbolic]")
						}
						out := make([]Value, k)
						for j := 0; j < k; j++ {
							idx := in.st.BinBV(term.OAdd, l64, in.st.BVC(uint64(j), 64))
							out[j] = in.loadSymElem(&SymElemPtr{Arr: cells, Idx: idx, w: 8})
						}
						switch x.(type) {
						case string, *SymStr:
							return mkStr(out)
						}
						return out
					}
				}
			}
		}
	}
	l := conc(lo, 0)
	h := conc(hi, Len)
	m := conc(max, Cap)
	isStr := false
	switch x.(type) {
	case string, *SymStr:
		isStr = true
	}
	if isStr {
		if l < 0 || h < l || h > int64(Len) {
			in.throwRuntime(fmt.Sprintf("slice bounds out of range [%d:%d] with length %d", l, h, Len))
		}
		return strSlice(x, int(l), int(h))
	}
	if l < 0 || h < l || m < h || m > int64(Cap) {
		in.throwRuntime(fmt.Sprintf("slice bounds out of range [%d:%d:%d] with capacity %d", l, h, m, Cap))
	}
	switch x := x.(type) {
	case []Value:
		if x == nil {
			return []Value(nil)
		}
		return x[l:h:m]
	case *Value:
		a := (*x).(Array)
		return []Value(a)[l:h:m]
	}
	panic(fmt.Sprintf("slice: unexpected X type: %T", x))
}

type strIter struct {
	s   Value
	pos int
}

func (in *Interp) strNext(it *strIter) Tuple {
	n := strLen(it.s)
	if it.pos >= n {
		return Tuple{false, int64(0), int64(0)}
	}
	if s, ok := it.s.(string); ok {
		for i, r := range s[it.pos:] {
			_ = i
			size := len(string(r))
			if r == 0xFFFD {
				// invalid byte or real U+FFFD
				if it.pos+3 <= len(s) && s[it.pos:it.pos+3] == "�" {
					size = 3
				} else {
					size = 1
				}
			}
			p := it.pos
			it.pos += size
			return Tuple{true, int64(p), int64(r)}
		}
	}
	r, size := in.decodeRune(it.s, it.pos)
	p := it.pos
	it.pos += size
	return Tuple{true, int64(p), r}
}

func (in *Interp) typeAssert(instr *ssa.TypeAssert, itf Iface) Value {
	var v Value
	err := ""
	if itf.T == nil {
		err = fmt.Sprintf("interface conversion: interface is nil, not %s", instr.AssertedType)
	} else if idst, ok := instr.AssertedType.Underlying().(*types.Interface); ok {
		v = itf
		if _, isR := itf.V.(RType); isR && !types.IsInterface(itf.T) {
			// reflect.Type stand-in satisfies reflect.Type only
		} else if meth, _ := types.MissingMethod(itf.T, idst, true); meth != nil {
			err = fmt.Sprintf("interface conversion: %v is not %v: missing method %s", itf.T, instr.AssertedType, meth.Name())
		}
	} else if types.Identical(itf.T, instr.AssertedType) {
		v = itf.V
	} else {
		err = fmt.Sprintf("interface conversion: interface is %s, not %s", itf.T, instr.AssertedType)
	}
	if err != "" {
		if !instr.CommaOk {
			in.throwRuntime(err)
		}
		return Tuple{zero(instr.AssertedType), false}
	}
	if instr.CommaOk {
		return Tuple{v, true}
	}
	return v
}

func (in *Interp) panicMessage(v Value) string {
	if i, ok := v.(Iface); ok {
		if s, ok := i.V.(string); ok {
			return s
		}
		if i.T != nil {
			// error or Stringer
			if s, ok := in.tryStringMethod(i); ok {
				return s
			}
			return fmt.Sprintf("(%s) %s", i.T, ValueString(i.V))
		}
		return "nil"
	}
	return ValueString(v)
}

// ---- calls ----

func (in *Interp) prepareCall(fr *frame, call *ssa.CallCommon) (fn Value, args []Value) {
	v := fr.get(call.Value)
	if call.Method == nil {
		fn = v
		args = make([]Value, 0, len(call.Args))
	} else {
		recv := v.(Iface)
		if recv.T == nil {
			in.throwNilDeref()
		}
		if rt, ok := recv.V.(RType); ok && isRTypeMarker(recv.T) {
			fn = &rtypeMethod{name: call.Method.Name(), t: rt}
		} else {
			f := in.prog.LookupMethod(recv.T, call.Method.Pkg(), call.Method.Name())
			if f == nil {
				panic(fmt.Sprintf("method set for dynamic type %v does not contain %s", recv.T, call.Method))
			}
			fn = f
		}
		args = make([]Value, 0, len(call.Args)+1)
		args = append(args, recv.V)
	}
	for _, arg := range call.Args {
		args = append(args, fr.get(arg))
	}
	return
}

type rtypeMethod struct {
	name string
	t    RType
}

func (in *Interp) call(caller *frame, fn Value, args []Value) Value {
	switch fn := fn.(type) {
	case *ssa.Function:
		if fn == nil {
			in.throwNilDeref()
		}
		return in.callFunction(caller, fn, args, nil)
	case *Closure:
		if fn == nil {
			in.throwNilDeref()
		}
		return in.callFunction(caller, fn.Fn, args, fn.Env)
	case *ssa.Builtin:
		return in.callBuiltin(caller, fn, args)
	case *rtypeMethod:
		return in.callRTypeMethod(fn, args)
	}
	panic(fmt.Sprintf("cannot call %T", fn))
}

func (in *Interp) callFunction(caller *frame, fn *ssa.Function, args []Value, env []Value) Value {
	fi := in.info(fn)
	switch fi.kind {
	case 1:
		return in.callAPI(caller, fi.api, fn, args)
	case 2:
		return fi.intr(in, caller, fn, args)
	case 3:
		if r, ok := fi.native(in, args); ok {
			return r
		}
	case 4:
		return in.callFunction(caller, fi.redirect, args, nil)
	}
	if fn.Blocks == nil {
		if fn.Pkg != nil {
			fn.Pkg.Build()
		}
		if fn.Blocks == nil {
			in.unsupported("call of external function " + fi.name)
		}
		// rebuild info now that blocks exist
		delete(in.fninfo, fn)
		fi = in.info(fn)
	}
	return in.callSSA(caller, fn, fi, args, env)
}

func (in *Interp) callSSA(caller *frame, fn *ssa.Function, fi *fnInfo, args []Value, env []Value) Value {
	if fn.TypeParams().Len() > 0 && len(fn.TypeArgs()) == 0 {
		panic("generic function body: build with InstantiateGenerics")
	}
	in.depth++
	if in.depth > in.cfg.DepthBudget {
		panic(&pathAbort{kind: "unwind", msg: fmt.Sprintf("call depth budget %d exceeded in %s", in.cfg.DepthBudget, fn)})
	}
	fr := &frame{in: in, caller: caller, fn: fn, info: fi}
	fr.regs = make([]Value, fi.nregs)
	fr.block = fn.Blocks[0]
	n := 0
	for range fn.Params {
		fr.regs[n] = args[n]
		n++
	}
	for i := range fn.FreeVars {
		fr.regs[n] = env[i]
		n++
	}
	saved := in.cur
	in.cur = fr
	startSteps := in.path.Steps
	for fr.block != nil {
		in.runFrame(fr)
	}
	in.cur = saved
	in.depth--
	fi.steps += in.path.Steps - startSteps
	return fr.result
}

func (in *Interp) runFrame(fr *frame) {
	defer func() {
		if fr.block == nil {
			return // normal return
		}
		r := recover()
		if _, ok := r.(*targetPanic); !ok {
			panic(r) // engine abort or engine bug: propagate untouched
		}
		in.cur = fr
		fr.panicking = true
		fr.panicVal = r
		fr.runDefers()
		fr.block = fr.fn.Recover
		if fr.block == nil {
			// recovered in a function without named results: return zero
			fr.result = zeroResult(fr.fn)
		}
	}()
	for {
		instrs := fr.block.Instrs
		// phis
		nphi := 0
		for nphi < len(instrs) {
			if _, ok := instrs[nphi].(*ssa.Phi); !ok {
				break
			}
			nphi++
		}
		if nphi > 0 {
			predIndex := -1
			for i, p := range fr.block.Preds {
				if p == fr.prevBlock {
					predIndex = i
					break
				}
			}
			fr.phitemps = fr.phitemps[:0]
			for _, phi := range instrs[:nphi] {
				fr.phitemps = append(fr.phitemps, fr.get(phi.(*ssa.Phi).Edges[predIndex]))
			}
			for i, phi := range instrs[:nphi] {
				fr.set(phi.(*ssa.Phi), fr.phitemps[i])
			}
		}
		for _, instr := range instrs[nphi:] {
			if in.visitInstr(fr, instr) == kReturn {
				return
			}
		}
	}
}

func zeroResult(fn *ssa.Function) Value {
	res := fn.Signature.Results()
	switch res.Len() {
	case 0:
		return nil
	case 1:
		return zero(res.At(0).Type())
	}
	return zero(res)
}

func (fr *frame) runDefer(d *deferred) {
	in := fr.in
	var ok bool
	saved := in.cur
	savedDepth := in.depth
	defer func() {
		if !ok {
			r := recover()
			if _, isT := r.(*targetPanic); !isT {
				panic(r)
			}
			in.cur = saved
			in.depth = savedDepth
			fr.panicking = true
			fr.panicVal = r
		}
	}()
	in.call(fr, d.fn, d.args)
	ok = true
}

func (fr *frame) runDefers() {
	for d := fr.defers; d != nil; d = d.tail {
		fr.runDefer(d)
	}
	fr.defers = nil
	if fr.panicking {
		panic(fr.panicVal)
	}
}

func (in *Interp) doRecover(caller *frame) Value {
	if caller != nil && !caller.panicking && caller.caller != nil && caller.caller.panicking {
		caller.caller.panicking = false
		p := caller.caller.panicVal
		caller.caller.panicVal = nil
		if tp, ok := p.(*targetPanic); ok {
			if i, ok := tp.v.(Iface); ok {
				return i
			}
			return Iface{T: types.Typ[types.String], V: tp.msg}
		}
		panic(fmt.Sprintf("unexpected panic type %T in recover()", p))
	}
	return Iface{}
}

func (in *Interp) callBuiltin(caller *frame, fn *ssa.Builtin, args []Value) Value {
	switch fn.Name() {
	case "append":
		if len(args) == 1 {
			return args[0]
		}
		dst := args[0].([]Value)
		var src []Value
		switch s := args[1].(type) {
		case string, *SymStr:
			src = strBytes(s)
		case []Value:
			src = s
		}
		if len(src) == 0 {
			return dst
		}
		if len(dst)+len(src) <= cap(dst) {
			n := len(dst)
			dst = dst[:n+len(src)]
			for i, v := range src {
				in.noteWrite(&dst[n+i])
				store(&dst[n+i], v)
			}
			return dst
		}
		// the capacity grows as in the gc runtime (growslice + malloc size classes), so that spare capacity - and with it
		// aliasing between an old slice and the result of append - arises exactly where it does natively
		elemSize := int64(1)
		if st, ok := fn.Type().(*types.Signature).Params().At(0).Type().Underlying().(*types.Slice); ok {
			elemSize = goSizes.Sizeof(st.Elem())
		}
		newCap := goGrowCap(cap(dst), len(dst)+len(src), elemSize)
		nd := make([]Value, newCap)
		for i := range dst {
			nd[i] = copyVal(dst[i])
		}
		n := len(dst)
		for i, v := range src {
			nd[n+i] = copyVal(v)
		}
		if st, ok := fn.Type().(*types.Signature).Params().At(0).Type().Underlying().(*types.Slice); ok {
			for i := n + len(src); i < newCap; i++ {
				nd[i] = zero(st.Elem())
			}
		}
		return nd[:n+len(src)]

	case "copy":
		dst := args[0].([]Value)
		var src []Value
		switch s := args[1].(type) {
		case string, *SymStr:
			src = strBytes(s)
		case []Value:
			src = s
		}
		n := len(dst)
		if len(src) < n {
			n = len(src)
		}
		if n > 0 && len(src) > 0 && &dst[0] != &src[0] {
			// handle overlap like memmove
			tmp := make([]Value, n)
			for i := 0; i < n; i++ {
				tmp[i] = copyVal(src[i])
			}
			for i := 0; i < n; i++ {
				in.noteWrite(&dst[i])
				store(&dst[i], tmp[i])
			}
		}
		return int64(n)

	case "close":
		in.unsupported("close(chan)")

	case "delete":
		in.mapDelete(args[0].(*Map), args[1])
		return nil

	case "print", "println":
		return nil

	case "len":
		switch x := args[0].(type) {
		case string:
			return int64(len(x))
		case *SymStr:
			return int64(len(x.B))
		case Array:
			return int64(len(x))
		case *Value:
			return int64(len((*x).(Array)))
		case []Value:
			return int64(len(x))
		case *Map:
			return int64(x.Len())
		case *chanVal:
			return int64(0)
		}
		panic(fmt.Sprintf("len: illegal operand: %T", args[0]))

	case "cap":
		switch x := args[0].(type) {
		case Array:
			return int64(len(x))
		case *Value:
			return int64(len((*x).(Array)))
		case []Value:
			return int64(cap(x))
		case *chanVal:
			return int64(0)
		}
		panic(fmt.Sprintf("cap: illegal operand: %T", args[0]))

	case "min", "max":
		t := fn.Type().(*types.Signature).Params().At(0).Type()
		x := args[0]
		for _, y := range args[1:] {
			var lt Value
			if fn.Name() == "min" {
				lt = in.binop(token.LSS, t, t, y, x)
			} else {
				lt = in.binop(token.GTR, t, t, y, x)
			}
			if in.branchVal(lt) {
				x = y
			}
		}
		return x

	case "real":
		return real(args[0].(complex128))
	case "imag":
		return imag(args[0].(complex128))
	case "complex":
		return complex(args[0].(float64), args[1].(float64))

	case "panic":
		in.throw("explicit", in.panicMessage(args[0]), args[0])

	case "recover":
		return in.doRecover(caller)

	case "ssa:wrapnilchk":
		recv := args[0]
		if p, ok := recv.(*Value); ok && p == nil {
			in.throw("nil-deref", fmt.Sprintf("value method %v.%v called using nil pointer", args[1], args[2]), Iface{T: types.Typ[types.String], V: "nil pointer"})
		}
		return recv

	case "ssa:deferstack":
		return &caller.defers

	case "SliceData":
		return sliceData{s: args[0].([]Value)}
	case "StringData":
		return sliceData{str: args[0]}
	case "String":
		n := int(args[1].(int64))
		switch p := args[0].(type) {
		case sliceData:
			if p.str != nil {
				return strSlice(p.str, 0, n)
			}
			return mkStr(p.s[:n])
		case *Value:
			if n == 0 {
				return ""
			}
		}
		in.unsupported(fmt.Sprintf("unsafe.String of %T", args[0]))
	case "Slice":
		n := int(args[1].(int64))
		switch p := args[0].(type) {
		case sliceData:
			if p.str != nil {
				b := strBytes(p.str)
				out := make([]Value, n)
				copy(out, b[:n])
				return out
			}
			return p.s[:n]
		}
		in.unsupported(fmt.Sprintf("unsafe.Slice of %T", args[0]))

	case "clear":
		switch x := args[0].(type) {
		case *Map:
			if x != nil {
				for i := range x.keys {
					if !x.dead[i] {
						x.dead[i] = true
					}
				}
				x.nlive, x.nsym = 0, 0
				x.idx = map[interface{}]int{}
			}
		case []Value:
			for i := range x {
				x[i] = zeroLike(x[i])
			}
		}
		return nil
	}
	panic("unknown built-in: " + fn.Name())
}

func zeroLike(v Value) Value {
	switch v := v.(type) {
	case bool:
		return false
	case *term.T:
		return int64(0)
	case int64:
		return int64(0)
	case float64:
		return float64(0)
	case string, *SymStr:
		return ""
	case Struct:
		c := make(Struct, len(v))
		for i := range v {
			c[i] = zeroLike(v[i])
		}
		return c
	case *Value:
		return (*Value)(nil)
	case Iface:
		return Iface{}
	}
	return v
}

var goSizes = types.StdSizes{WordSize: 8, MaxAlign: 8}

// goSizeClasses: malloc size classes of the gc runtime (runtime/sizeclasses.go).
var goSizeClasses = []int64{0, 8, 16, 24, 32, 48, 64, 80, 96, 112, 128, 144, 160, 176, 192, 208, 224, 240, 256, 288, 320, 352, 384, 416, 448, 480, 512,
	576, 640, 704, 768, 896, 1024, 1152, 1280, 1408, 1536, 1792, 2048, 2304, 2688, 3072, 3200, 3456, 4096, 4864, 5376, 6144, 6528, 6784, 6912, 8192,
	9472, 9728, 10240, 10880, 12288, 13568, 14336, 16384, 18432, 19072, 20480, 21760, 24576, 27264, 28672, 32768}

func goRoundUpSize(n int64) int64 {
	if n <= 32768 {
		for _, c := range goSizeClasses {
			if c >= n {
				return c
			}
		}
	}
	const page = 8192
	return (n + page - 1) / page * page
}

// goGrowCap: capacity of the slice that append allocates when newLen elements of elemSize bytes do not fit in oldCap
// (runtime.growslice / nextslicecap of Go 1.20+, amd64).
func goGrowCap(oldCap, newLen int, elemSize int64) int {
	newcap := oldCap
	doublecap := newcap + newcap
	if newLen > doublecap {
		newcap = newLen
	} else {
		const threshold = 256
		if oldCap < threshold {
			newcap = doublecap
		} else {
			for newcap < newLen {
				newcap += (newcap + 3*threshold) >> 2
			}
		}
	}
	if elemSize <= 0 {
		return newcap
	}
	mem := goRoundUpSize(int64(newcap) * elemSize)
	return int(mem / elemSize)
}

type pendingGoroutine struct {
	fn   Value
	args []Value
}

// runPendingGo runs the goroutines spawned so far, each to completion. Under map-order mode "all" the order is a
// nondeterministic choice (every permutation is a path); otherwise they run in spawn order. Interleavings *inside* the
// goroutine bodies are not explored: this models programs whose goroutines only communicate through a lock-protected
// result collection, and says so in the evidence (cover label engine-goroutines-run-atomically).
func (in *Interp) runPendingGo(caller *frame) {
	for len(in.pendingGo) > 0 {
		k := 0
		if in.MapOrder == "all" && len(in.pendingGo) > 1 {
			if len(in.pendingGo) > 4 {
				in.unsupported("more than 4 goroutines pending: their orders are not enumerated")
			}
			k = in.choice(len(in.pendingGo), "goroutine-order")
		}
		g := in.pendingGo[k]
		in.pendingGo = append(append([]pendingGoroutine{}, in.pendingGo[:k]...), in.pendingGo[k+1:]...)
		in.call(caller, g.fn, g.args)
	}
}
