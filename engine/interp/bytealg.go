package interp

import (
	"go/types"

	"golang.org/x/tools/go/ssa"
)

// Pure-Go stand-ins for internal/bytealg's assembly leaves; they fork on symbolic bytes exactly like the loops they replace.

func bytesOf(v Value) []Value {
	switch v := v.(type) {
	case string, *SymStr:
		return strBytes(v)
	case []Value:
		return v
	}
	panic("bytesOf")
}

func (in *Interp) indexByte(s []Value, c Value) int64 {
	for i := range s {
		if in.branch(in.byteEq(s[i], c)) {
			return int64(i)
		}
	}
	return -1
}

func (in *Interp) indexSeq(a, b []Value) int64 {
	n := len(b)
	if n == 0 {
		return 0
	}
	for i := 0; i+n <= len(a); i++ {
		eq := in.st.True
		for j := 0; j < n; j++ {
			eq = in.st.And(eq, in.byteEq(a[i+j], b[j]))
			if eq.IsFalse() {
				break
			}
		}
		if in.branch(eq) {
			return int64(i)
		}
	}
	return -1
}

func init() {
	idxByte := func(in *Interp, caller *frame, fn *ssa.Function, args []Value) Value {
		return in.indexByte(bytesOf(args[0]), args[1])
	}
	intrinsics["internal/bytealg.IndexByteString"] = idxByte
	intrinsics["internal/bytealg.IndexByte"] = idxByte
	idx := func(in *Interp, caller *frame, fn *ssa.Function, args []Value) Value {
		return in.indexSeq(bytesOf(args[0]), bytesOf(args[1]))
	}
	intrinsics["internal/bytealg.IndexString"] = idx
	intrinsics["internal/bytealg.Index"] = idx
	cnt := func(in *Interp, caller *frame, fn *ssa.Function, args []Value) Value {
		n := int64(0)
		for _, b := range bytesOf(args[0]) {
			if in.branch(in.byteEq(b, args[1])) {
				n++
			}
		}
		return n
	}
	intrinsics["internal/bytealg.CountString"] = cnt
	intrinsics["internal/bytealg.Count"] = cnt
	intrinsics["internal/bytealg.Compare"] = func(in *Interp, caller *frame, fn *ssa.Function, args []Value) Value {
		a, b := mkStr(bytesOf(args[0])), mkStr(bytesOf(args[1]))
		if in.branchVal(in.strEq(a, b)) {
			return int64(0)
		}
		if in.branchVal(in.strLess(a, b, false)) {
			return int64(-1)
		}
		return int64(1)
	}
	intrinsics["internal/bytealg.Equal"] = func(in *Interp, caller *frame, fn *ssa.Function, args []Value) Value {
		return in.strEq(mkStr(bytesOf(args[0])), mkStr(bytesOf(args[1])))
	}
	intrinsics["internal/bytealg.LastIndexByteString"] = func(in *Interp, caller *frame, fn *ssa.Function, args []Value) Value {
		s := bytesOf(args[0])
		for i := len(s) - 1; i >= 0; i-- {
			if in.branch(in.byteEq(s[i], args[1])) {
				return int64(i)
			}
		}
		return int64(-1)
	}
}

// sort.Slice / sort.SliceStable on a slice held in an interface: insertion sort, which is what package sort itself
// runs for slices of up to 12 elements (so that the order of elements that compare equal is the real one); longer
// slices are sorted the same way only for SliceStable, whose result does not depend on the algorithm.
func sortSliceIntrinsic(stable bool) func(in *Interp, caller *frame, fn *ssa.Function, args []Value) Value {
	return func(in *Interp, caller *frame, fn *ssa.Function, args []Value) Value {
		x, ok := args[0].(Iface)
		if !ok || x.T == nil {
			in.throw("explicit", "sort.Slice of a non-slice", Iface{T: types.Typ[types.String], V: "sort.Slice of a non-slice"})
		}
		xs, ok := x.V.([]Value)
		if !ok {
			in.unsupported("sort.Slice on " + x.T.String())
		}
		if !stable && len(xs) > 12 {
			in.unsupported("sort.Slice on more than 12 elements (pdqsort is not modelled)")
		}
		for i := 1; i < len(xs); i++ {
			for j := i; j > 0; j-- {
				r := in.call(caller, args[1], []Value{int64(j), int64(j - 1)})
				if !in.branchVal(r) {
					break
				}
				xs[j], xs[j-1] = xs[j-1], xs[j]
			}
		}
		return nil
	}
}

func init() {
	intrinsics["sort.Slice"] = sortSliceIntrinsic(false)
	intrinsics["sort.SliceStable"] = sortSliceIntrinsic(true)
}
