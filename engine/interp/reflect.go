package interp

import (
	"fmt"
	"go/token"
	"go/types"
	"unsafe"

	"golang.org/x/tools/go/ssa"
)

const tokenADD = token.ADD

// rtypeMarker is the dynamic type of the engine's reflect.Type values.
var rtypeMarker = types.NewNamed(types.NewTypeName(token.NoPos, nil, "symgo.rtype", nil), types.NewStruct(nil, nil), nil)

func isRTypeMarker(t types.Type) bool { return t == rtypeMarker }

const (
	kInvalid = iota
	kBool
	kInt
	kInt8
	kInt16
	kInt32
	kInt64
	kUint
	kUint8
	kUint16
	kUint32
	kUint64
	kUintptr
	kFloat32
	kFloat64
	kComplex64
	kComplex128
	kArray
	kChan
	kFunc
	kInterface
	kMap
	kPointer
	kSlice
	kString
	kStruct
	kUnsafePointer
)

func reflectKind(t types.Type) int64 {
	switch t := t.Underlying().(type) {
	case *types.Basic:
		switch t.Kind() {
		case types.Bool:
			return kBool
		case types.Int:
			return kInt
		case types.Int8:
			return kInt8
		case types.Int16:
			return kInt16
		case types.Int32:
			return kInt32
		case types.Int64:
			return kInt64
		case types.Uint:
			return kUint
		case types.Uint8:
			return kUint8
		case types.Uint16:
			return kUint16
		case types.Uint32:
			return kUint32
		case types.Uint64:
			return kUint64
		case types.Uintptr:
			return kUintptr
		case types.Float32:
			return kFloat32
		case types.Float64:
			return kFloat64
		case types.Complex64:
			return kComplex64
		case types.Complex128:
			return kComplex128
		case types.String:
			return kString
		case types.UnsafePointer:
			return kUnsafePointer
		}
	case *types.Array:
		return kArray
	case *types.Chan:
		return kChan
	case *types.Signature:
		return kFunc
	case *types.Interface:
		return kInterface
	case *types.Map:
		return kMap
	case *types.Pointer:
		return kPointer
	case *types.Slice:
		return kSlice
	case *types.Struct:
		return kStruct
	}
	panic(fmt.Sprint("reflectKind: unexpected type: ", t))
}

// reflect.Value is modelled as Struct{RType, payload, flag}; flag 0 = invalid, bit0 valid, bit1 read-only.
func mkRV(t types.Type, v Value, flag int64) Value {
	return Struct{RType{t}, v, flag}
}

func rvParts(v Value) (types.Type, Value, int64) {
	s := v.(Struct)
	fl, _ := s[2].(int64)
	if fl == 0 {
		return nil, nil, 0
	}
	rt, ok := s[0].(RType)
	if !ok {
		return nil, nil, 0
	}
	return rt.T, s[1], fl
}

func rtypeIface(t types.Type) Value {
	return Iface{T: rtypeMarker, V: RType{t}}
}

func (in *Interp) reflectPanic(method string) {
	in.throw("explicit", "reflect: call of reflect.Value."+method+" on zero Value", Iface{T: types.Typ[types.String], V: "reflect: call of reflect.Value." + method + " on zero Value"})
}

func registerReflect() {
	intrinsics["reflect.TypeOf"] = func(in *Interp, caller *frame, fn *ssa.Function, args []Value) Value {
		i := args[0].(Iface)
		if i.T == nil {
			return Iface{}
		}
		return rtypeIface(i.T)
	}
	intrinsics["internal/reflectlite.TypeOf"] = intrinsics["reflect.TypeOf"]
	intrinsics["reflect.ValueOf"] = func(in *Interp, caller *frame, fn *ssa.Function, args []Value) Value {
		i := args[0].(Iface)
		if i.T == nil {
			return mkRV(nil, nil, 0)
		}
		return mkRV(i.T, i.V, 1)
	}
	intrinsics["(reflect.Value).Kind"] = func(in *Interp, caller *frame, fn *ssa.Function, args []Value) Value {
		t, _, fl := rvParts(args[0])
		if fl == 0 {
			return int64(kInvalid)
		}
		return reflectKind(t)
	}
	intrinsics["(reflect.Value).IsValid"] = func(in *Interp, caller *frame, fn *ssa.Function, args []Value) Value {
		_, _, fl := rvParts(args[0])
		return fl != 0
	}
	intrinsics["(reflect.Value).Type"] = func(in *Interp, caller *frame, fn *ssa.Function, args []Value) Value {
		t, _, fl := rvParts(args[0])
		if fl == 0 {
			in.reflectPanic("Type")
		}
		return rtypeIface(t)
	}
	intrinsics["(reflect.Value).IsNil"] = func(in *Interp, caller *frame, fn *ssa.Function, args []Value) Value {
		_, v, fl := rvParts(args[0])
		if fl == 0 {
			in.reflectPanic("IsNil")
		}
		switch v := v.(type) {
		case *Value:
			return v == nil
		case []Value:
			return v == nil
		case *Map:
			return v == nil
		case Iface:
			return v.T == nil
		case *ssa.Function:
			return v == nil
		case *Closure:
			return v == nil
		case *chanVal:
			return v == nil
		}
		in.throw("explicit", "reflect: call of reflect.Value.IsNil on non-nillable Value", Iface{T: types.Typ[types.String], V: "reflect: IsNil"})
		return nil
	}
	intrinsics["(reflect.Value).IsZero"] = func(in *Interp, caller *frame, fn *ssa.Function, args []Value) Value {
		t, v, fl := rvParts(args[0])
		if fl == 0 {
			in.reflectPanic("IsZero")
		}
		return in.reflectIsZero(t, v)
	}
	intrinsics["(reflect.Value).Pointer"] = func(in *Interp, caller *frame, fn *ssa.Function, args []Value) Value {
		_, v, fl := rvParts(args[0])
		if fl == 0 {
			in.reflectPanic("Pointer")
		}
		// an address-like identity: equal for the same engine object, distinct for different ones, 0 for nil
		switch v := v.(type) {
		case *Value:
			if v == nil {
				return int64(0)
			}
			return int64(uintptr(unsafe.Pointer(v)))
		case *Map:
			if v == nil {
				return int64(0)
			}
			return int64(uintptr(unsafe.Pointer(v)))
		case []Value:
			if cap(v) == 0 {
				return int64(0)
			}
			return int64(uintptr(unsafe.Pointer(&v[:1][0])))
		}
		in.unsupported("reflect.Value.Pointer on this kind of value")
		return nil
	}
	intrinsics["(reflect.Value).Elem"] = func(in *Interp, caller *frame, fn *ssa.Function, args []Value) Value {
		t, v, fl := rvParts(args[0])
		if fl == 0 {
			in.reflectPanic("Elem")
		}
		switch ut := t.Underlying().(type) {
		case *types.Pointer:
			p := v.(*Value)
			if p == nil {
				return mkRV(nil, nil, 0)
			}
			return mkRV(ut.Elem(), load(p), fl)
		case *types.Interface:
			i := v.(Iface)
			if i.T == nil {
				return mkRV(nil, nil, 0)
			}
			return mkRV(i.T, i.V, fl)
		}
		in.throw("explicit", "reflect: call of reflect.Value.Elem on "+t.String()+" Value", Iface{T: types.Typ[types.String], V: "reflect: Elem of non-pointer"})
		return nil
	}
	intrinsics["(reflect.Value).Interface"] = func(in *Interp, caller *frame, fn *ssa.Function, args []Value) Value {
		t, v, fl := rvParts(args[0])
		if fl == 0 {
			in.reflectPanic("Interface")
		}
		if fl&(2|4) != 0 {
			in.throw("explicit", "reflect.Value.Interface: cannot return value obtained from unexported field or method", Iface{T: types.Typ[types.String], V: "reflect.Value.Interface: cannot return value obtained from unexported field or method"})
		}
		if _, ok := t.Underlying().(*types.Interface); ok {
			return v
		}
		return Iface{T: t, V: v}
	}
	intrinsics["(reflect.Value).Field"] = func(in *Interp, caller *frame, fn *ssa.Function, args []Value) Value {
		t, v, fl := rvParts(args[0])
		if fl == 0 {
			in.reflectPanic("Field")
		}
		st, ok := t.Underlying().(*types.Struct)
		if !ok {
			in.throw("explicit", "reflect: call of reflect.Value.Field on "+t.String()+" Value", Iface{T: types.Typ[types.String], V: "reflect: Field of non-struct"})
		}
		i := args[1].(int64)
		if i < 0 || int(i) >= st.NumFields() {
			in.throw("explicit", "reflect: Field index out of range", Iface{T: types.Typ[types.String], V: "reflect: Field index out of range"})
		}
		f := st.Field(int(i))
		// as in package reflect: read-only through an unexported embedded field (4) is not inherited by the fields
		// promoted through it, read-only through an unexported plain field (2) is
		nf := fl &^ 4
		if !f.Exported() {
			if f.Anonymous() {
				nf |= 4
			} else {
				nf |= 2
			}
		}
		return mkRV(f.Type(), v.(Struct)[i], nf)
	}
	intrinsics["(reflect.Value).FieldByIndex"] = func(in *Interp, caller *frame, fn *ssa.Function, args []Value) Value {
		idx, ok := args[1].([]Value)
		if !ok {
			in.unsupported("reflect.Value.FieldByIndex with a non-concrete index")
		}
		cur := args[0]
		for k, iv := range idx {
			if k > 0 {
				t, v, _ := rvParts(cur)
				if pt, ok := t.Underlying().(*types.Pointer); ok {
					if _, ok := pt.Elem().Underlying().(*types.Struct); ok {
						if v.(*Value) == nil {
							in.throw("explicit", "reflect: indirection through nil pointer to embedded struct", Iface{T: types.Typ[types.String], V: "reflect: indirection through nil pointer to embedded struct"})
						}
						cur = intrinsics["(reflect.Value).Elem"](in, caller, fn, []Value{cur})
					}
				}
			}
			cur = intrinsics["(reflect.Value).Field"](in, caller, fn, []Value{cur, iv})
		}
		return cur
	}
	intrinsics["(reflect.Value).NumField"] = func(in *Interp, caller *frame, fn *ssa.Function, args []Value) Value {
		t, _, fl := rvParts(args[0])
		if fl == 0 {
			in.reflectPanic("NumField")
		}
		return int64(t.Underlying().(*types.Struct).NumFields())
	}
	intrinsics["(reflect.Value).Len"] = func(in *Interp, caller *frame, fn *ssa.Function, args []Value) Value {
		_, v, fl := rvParts(args[0])
		if fl == 0 {
			in.reflectPanic("Len")
		}
		switch v := v.(type) {
		case []Value:
			return int64(len(v))
		case Array:
			return int64(len(v))
		case string:
			return int64(len(v))
		case *SymStr:
			return int64(len(v.B))
		case *Map:
			return int64(v.Len())
		}
		in.throw("explicit", "reflect: call of reflect.Value.Len on unsupported Value", Iface{T: types.Typ[types.String], V: "reflect: Len"})
		return nil
	}
	intrinsics["(reflect.Value).Index"] = func(in *Interp, caller *frame, fn *ssa.Function, args []Value) Value {
		t, v, fl := rvParts(args[0])
		if fl == 0 {
			in.reflectPanic("Index")
		}
		i := args[1].(int64)
		switch ut := t.Underlying().(type) {
		case *types.Slice:
			s := v.([]Value)
			if i < 0 || int(i) >= len(s) {
				in.throw("explicit", "reflect: slice index out of range", Iface{T: types.Typ[types.String], V: "reflect: slice index out of range"})
			}
			return mkRV(ut.Elem(), copyVal(s[i]), fl)
		case *types.Array:
			s := v.(Array)
			if i < 0 || int(i) >= len(s) {
				in.throw("explicit", "reflect: array index out of range", Iface{T: types.Typ[types.String], V: "reflect: array index out of range"})
			}
			return mkRV(ut.Elem(), copyVal(s[i]), fl)
		}
		in.unsupported("reflect.Value.Index on " + t.String())
		return nil
	}
	intrinsics["(reflect.Value).MapKeys"] = func(in *Interp, caller *frame, fn *ssa.Function, args []Value) Value {
		t, v, fl := rvParts(args[0])
		if fl == 0 {
			in.reflectPanic("MapKeys")
		}
		mt, ok := t.Underlying().(*types.Map)
		if !ok {
			in.throw("explicit", "reflect: call of reflect.Value.MapKeys on non-map", Iface{T: types.Typ[types.String], V: "reflect: MapKeys"})
		}
		m := v.(*Map)
		out := []Value{}
		it := in.newMapIter(m)
		for {
			tup := in.mapNext(it)
			if tup[0] == false {
				break
			}
			out = append(out, mkRV(mt.Key(), tup[1], fl))
		}
		return out
	}
	intrinsics["(reflect.Value).MapIndex"] = func(in *Interp, caller *frame, fn *ssa.Function, args []Value) Value {
		t, v, fl := rvParts(args[0])
		if fl == 0 {
			in.reflectPanic("MapIndex")
		}
		mt := t.Underlying().(*types.Map)
		_, kv, kfl := rvParts(args[1])
		if kfl == 0 {
			in.reflectPanic("MapIndex")
		}
		r, ok := in.mapLookup(v.(*Map), kv)
		if !ok {
			return mkRV(nil, nil, 0)
		}
		return mkRV(mt.Elem(), r, fl)
	}
	intrinsics["(reflect.Value).String"] = func(in *Interp, caller *frame, fn *ssa.Function, args []Value) Value {
		t, v, fl := rvParts(args[0])
		if fl == 0 {
			return "<invalid Value>"
		}
		if isString(t) {
			return v
		}
		return "<" + typeStringForFmt(t) + " Value>"
	}
	intrinsics["(reflect.Value).Int"] = func(in *Interp, caller *frame, fn *ssa.Function, args []Value) Value {
		_, v, fl := rvParts(args[0])
		if fl == 0 {
			in.reflectPanic("Int")
		}
		return v
	}
	intrinsics["(reflect.Value).Bool"] = func(in *Interp, caller *frame, fn *ssa.Function, args []Value) Value {
		_, v, fl := rvParts(args[0])
		if fl == 0 {
			in.reflectPanic("Bool")
		}
		return v
	}
	intrinsics["(reflect.Kind).String"] = func(in *Interp, caller *frame, fn *ssa.Function, args []Value) Value {
		names := []string{"invalid", "bool", "int", "int8", "int16", "int32", "int64", "uint", "uint8", "uint16", "uint32", "uint64", "uintptr", "float32", "float64", "complex64", "complex128", "array", "chan", "func", "interface", "map", "ptr", "slice", "string", "struct", "unsafe.Pointer"}
		k := args[0].(int64)
		if k >= 0 && int(k) < len(names) {
			return names[k]
		}
		return fmt.Sprintf("kind%d", k)
	}
	intrinsics["reflect.DeepEqual"] = func(in *Interp, caller *frame, fn *ssa.Function, args []Value) Value {
		return in.deepEqual(args[0], args[1], 0)
	}
}

func (in *Interp) callRTypeMethod(m *rtypeMethod, args []Value) Value {
	t := m.t.T
	switch m.name {
	case "Kind":
		return reflectKind(t)
	case "String":
		return typeStringForFmt(t)
	case "Name":
		if n, ok := t.(*types.Named); ok {
			return n.Obj().Name()
		}
		if b, ok := t.(*types.Basic); ok {
			return b.Name()
		}
		return ""
	case "PkgPath":
		if n, ok := t.(*types.Named); ok && n.Obj().Pkg() != nil {
			return n.Obj().Pkg().Path()
		}
		return ""
	case "NumField":
		st, ok := t.Underlying().(*types.Struct)
		if !ok {
			in.throw("explicit", "reflect: NumField of non-struct type "+t.String(), Iface{T: types.Typ[types.String], V: "reflect: NumField of non-struct type"})
		}
		return int64(st.NumFields())
	case "Field":
		st, ok := t.Underlying().(*types.Struct)
		if !ok {
			in.throw("explicit", "reflect: Field of non-struct type "+t.String(), Iface{T: types.Typ[types.String], V: "reflect: Field of non-struct type"})
		}
		i := args[1].(int64)
		if i < 0 || int(i) >= st.NumFields() {
			in.throw("explicit", "reflect: Field index out of bounds", Iface{T: types.Typ[types.String], V: "reflect: Field index out of bounds"})
		}
		f := st.Field(int(i))
		pkgPath := ""
		if !f.Exported() && f.Pkg() != nil {
			pkgPath = f.Pkg().Path()
		}
		// reflect.StructField{Name, PkgPath, Type, Tag, Offset, Index, Anonymous}
		return Struct{f.Name(), pkgPath, rtypeIface(f.Type()), st.Tag(int(i)), int64(0), []Value{i}, f.Anonymous()}
	case "Elem":
		switch ut := t.Underlying().(type) {
		case *types.Pointer:
			return rtypeIface(ut.Elem())
		case *types.Slice:
			return rtypeIface(ut.Elem())
		case *types.Array:
			return rtypeIface(ut.Elem())
		case *types.Map:
			return rtypeIface(ut.Elem())
		case *types.Chan:
			return rtypeIface(ut.Elem())
		}
		in.throw("explicit", "reflect: Elem of invalid type "+t.String(), Iface{T: types.Typ[types.String], V: "reflect: Elem of invalid type"})
	case "Key":
		if mt, ok := t.Underlying().(*types.Map); ok {
			return rtypeIface(mt.Key())
		}
	case "Len":
		if at, ok := t.Underlying().(*types.Array); ok {
			return at.Len()
		}
	case "Comparable":
		return types.Comparable(t)
	}
	in.unsupported("reflect.Type." + m.name)
	return nil
}

// deepEqual implements reflect.DeepEqual on interface arguments; may fork on symbolic parts.
func (in *Interp) deepEqual(x, y Value, depth int) Value {
	if depth > 50 {
		in.unsupported("DeepEqual too deep")
	}
	switch x := x.(type) {
	case Iface:
		yi, ok := y.(Iface)
		if !ok {
			return false
		}
		if x.T == nil || yi.T == nil {
			return x.T == nil && yi.T == nil
		}
		if !types.Identical(x.T, yi.T) {
			return false
		}
		return in.deepEqualT(x.T, x.V, yi.V, depth+1)
	}
	return in.equals(nil, x, y)
}

func (in *Interp) deepEqualT(t types.Type, x, y Value, depth int) Value {
	switch ut := t.Underlying().(type) {
	case *types.Slice:
		xs, ys := x.([]Value), y.([]Value)
		if (xs == nil) != (ys == nil) || len(xs) != len(ys) {
			return false
		}
		var acc Value = true
		for i := range xs {
			acc = in.and(acc, in.deepEqualT(ut.Elem(), xs[i], ys[i], depth+1))
			if acc == false {
				return false
			}
		}
		return acc
	case *types.Array:
		xs, ys := x.(Array), y.(Array)
		var acc Value = true
		for i := range xs {
			acc = in.and(acc, in.deepEqualT(ut.Elem(), xs[i], ys[i], depth+1))
			if acc == false {
				return false
			}
		}
		return acc
	case *types.Struct:
		xs, ys := x.(Struct), y.(Struct)
		var acc Value = true
		for i := range xs {
			acc = in.and(acc, in.deepEqualT(ut.Field(i).Type(), xs[i], ys[i], depth+1))
			if acc == false {
				return false
			}
		}
		return acc
	case *types.Pointer:
		xp, yp := x.(*Value), y.(*Value)
		if xp == yp {
			return true
		}
		if xp == nil || yp == nil {
			return false
		}
		return in.deepEqualT(ut.Elem(), *xp, *yp, depth+1)
	case *types.Interface:
		return in.deepEqual(x, y, depth+1)
	case *types.Map:
		xm, ym := x.(*Map), y.(*Map)
		if (xm == nil) != (ym == nil) || xm.Len() != ym.Len() {
			return false
		}
		if xm == ym {
			return true
		}
		var acc Value = true
		for i, k := range xm.keys {
			if xm.dead[i] {
				continue
			}
			yv, ok := in.mapLookup(ym, k)
			if !ok {
				return false
			}
			acc = in.and(acc, in.deepEqualT(ut.Elem(), xm.vals[i], yv, depth+1))
			if acc == false {
				return false
			}
		}
		return acc
	case *types.Signature:
		return isNilFunc(x) && isNilFunc(y)
	}
	return in.equals(t, x, y)
}

// reflectIsZero: reflect.Value.IsZero - nil-ness for the nillable kinds, comparison with the zero value for basic
// kinds (possibly a symbolic condition), field by field for structs and arrays.
func (in *Interp) reflectIsZero(t types.Type, v Value) Value {
	switch ut := t.Underlying().(type) {
	case *types.Basic:
		return in.equals(t, v, zero(t))
	case *types.Struct:
		var acc Value = true
		sv := v.(Struct)
		for i := 0; i < ut.NumFields(); i++ {
			if ut.Field(i).Name() == "_" {
				continue
			}
			acc = in.and(acc, in.reflectIsZero(ut.Field(i).Type(), sv[i]))
			if acc == false {
				return false
			}
		}
		return acc
	case *types.Array:
		var acc Value = true
		for _, e := range v.(Array) {
			acc = in.and(acc, in.reflectIsZero(ut.Elem(), e))
			if acc == false {
				return false
			}
		}
		return acc
	}
	switch v := v.(type) {
	case *Value:
		return v == nil
	case []Value:
		return v == nil
	case *Map:
		return v == nil
	case Iface:
		return v.T == nil
	case *ssa.Function:
		return v == nil
	case *Closure:
		return v == nil
	case *chanVal:
		return v == nil
	case unsafePtr:
		return v.v == nil
	}
	in.unsupported("reflect.Value.IsZero on " + t.String())
	return nil
}
