package interp

import (
	"fmt"
	"go/types"
	"html"
	"math"
	"reflect"
	"strconv"
	"strings"
	"unicode"
	"unicode/utf8"

	"golang.org/x/tools/go/ssa"

	"symgo/term"
)

type intrinsicFn func(in *Interp, caller *frame, fn *ssa.Function, args []Value) Value
type nativeFn func(in *Interp, args []Value) (Value, bool)

var apiNames = map[string]bool{
	"vBool": true, "vByte": true, "vInt64": true, "vInt": true, "vRune": true, "vFloat64": true, "vChoice": true,
	"vAssume": true, "vAssert": true, "vCover": true, "vObserve": true, "vObserveInt": true, "vFail": true,
	"vIsSymbolic": true, "vEqStr": true, "vUint64": true, "vMapOrder": true, "vSteps": true,
	"vfsReset": true, "vfsWriteFile": true, "vfsMkdir": true, "vfsDangling": true, "vfsCwd": true, "vfsUnreadable": true,
	"vFreeze": true, "vShare": true, "vSharedWrites": true, "vSharedAtomicConflicts": true, "vPhase": true, "vPhaseConflicts": true, "vNative": true, "vParam": true,
}

func (in *Interp) classify(fn *ssa.Function, fi *fnInfo) {
	name := fi.name
	if fn.Blocks == nil && apiNames[fn.Name()] && fn.Pkg != nil {
		fi.kind, fi.api = 1, fn.Name()
		return
	}
	if fn.Synthetic == "package initializer" {
		fi.kind = 2
		fi.intr = func(in *Interp, caller *frame, fn *ssa.Function, args []Value) Value {
			if caller != nil {
				return nil // inits are ordered by the engine
			}
			return in.callSSA(nil, fn, fi, args, nil)
		}
		return
	}
	if r, ok := in.cfg.Redirects[name]; ok {
		fi.kind, fi.redirect = 4, r
		return
	}
	if f, ok := intrinsics[name]; ok {
		fi.kind, fi.intr = 2, f
		return
	}
	if f, ok := natives[name]; ok {
		fi.kind, fi.native = 3, f
		return
	}
}

// ---- harness API ----

func (in *Interp) strArg(v Value) string {
	s, ok := v.(string)
	if !ok {
		panic("harness API: name/label argument must be a concrete string")
	}
	return s
}

func (in *Interp) callAPI(caller *frame, api string, fn *ssa.Function, args []Value) Value {
	st := in.st
	switch api {
	case "vBool":
		return in.newInput(in.strArg(args[0]), "bool", term.Bool)
	case "vByte":
		return in.newInput(in.strArg(args[0]), "byte", term.BV(8))
	case "vRune":
		return in.newInput(in.strArg(args[0]), "rune", term.BV(32))
	case "vInt64":
		return in.newInput(in.strArg(args[0]), "int64", term.BV(64))
	case "vUint64":
		return in.newInput(in.strArg(args[0]), "uint64", term.BV(64))
	case "vInt":
		t := in.newInput(in.strArg(args[0]), "int64", term.BV(64))
		lo, hi := args[1].(int64), args[2].(int64)
		in.assumeTerm(st.And(st.Cmp(term.OSLe, st.BVC(uint64(lo), 64), t), st.Cmp(term.OSLe, t, st.BVC(uint64(hi), 64))))
		return t
	case "vFloat64":
		// a float input is a 64-bit pattern reinterpreted, so that Float64bits of it stays a plain variable
		return in.st.BitsToFP(in.newInput(in.strArg(args[0]), "float64", term.BV(64)), term.FP64)
	case "vChoice":
		name := in.strArg(args[0])
		n := int(args[1].(int64))
		c := in.choice(n, name)
		p := in.path
		k := p.names[name]
		p.names[name] = k + 1
		full := name
		if k > 0 {
			full = fmt.Sprintf("%s#%d", name, k)
		}
		p.Inputs = append(p.Inputs, Input{Name: full, Kind: "choice", V: uint64(c)})
		return int64(c)
	case "vAssume":
		switch c := args[0].(type) {
		case bool:
			if !c {
				panic(&pathAbort{kind: "assume", msg: "assumption false"})
			}
		case *term.T:
			in.assumeTerm(c)
		}
		return nil
	case "vAssert":
		in.assert(args[0], in.strArg(args[1]))
		return nil
	case "vFail":
		panic(&pathAbort{kind: "violation", msg: in.strArg(args[0])})
	case "vCover":
		in.path.Covers = append(in.path.Covers, in.strArg(args[0]))
		return nil
	case "vObserve":
		in.path.Obs = append(in.path.Obs, Obs{Label: in.strArg(args[0]), terms: []Value{args[1]}})
		return nil
	case "vObserveInt":
		in.path.Obs = append(in.path.Obs, Obs{Label: in.strArg(args[0]), terms: []Value{args[1]}})
		return nil
	case "vIsSymbolic":
		return true
	case "vNative":
		return false
	case "vEqStr":
		return in.strEq(args[0], args[1])
	case "vMapOrder":
		in.MapOrder = in.strArg(args[0])
		return nil
	case "vSteps":
		return in.path.Steps
	case "vParam":
		v, ok := in.cfg.Params[in.strArg(args[0])]
		if !ok {
			panic("harness asks for undefined parameter " + in.strArg(args[0]))
		}
		return v
	case "vfsReset", "vfsWriteFile", "vfsMkdir", "vfsDangling", "vfsCwd", "vfsUnreadable":
		return in.vfsAPI(api, args)
	case "vFreeze":
		in.freeze()
		return nil
	case "vShare":
		if in.frozen == nil {
			in.freeze()
		}
		in.freezeVal(args[0])
		return nil
	case "vSharedWrites":
		return int64(len(in.sharedWrites))
	case "vSharedAtomicConflicts":
		return int64(len(in.atomicConflicts()))
	case "vPhase":
		in.phase = int(args[0].(int64))
		return nil
	case "vPhaseConflicts":
		c := in.phaseConflicts()
		if len(c) > 0 && in.path != nil {
			in.path.Notes = append(in.path.Notes, c...)
		}
		return int64(len(c))
	}
	panic("unknown harness API " + api)
}

// ---- native stdlib fast paths (used only when every argument is concrete) ----

func toGo(v Value, t reflect.Type) (reflect.Value, bool) {
	switch t.Kind() {
	case reflect.String:
		s, ok := v.(string)
		if !ok {
			return reflect.Value{}, false
		}
		return reflect.ValueOf(s), true
	case reflect.Int, reflect.Int64, reflect.Int32, reflect.Int8, reflect.Int16:
		c, ok := v.(int64)
		if !ok {
			return reflect.Value{}, false
		}
		return reflect.ValueOf(c).Convert(t), true
	case reflect.Uint8, reflect.Uint, reflect.Uint64, reflect.Uint32, reflect.Uint16:
		c, ok := v.(int64)
		if !ok {
			return reflect.Value{}, false
		}
		return reflect.ValueOf(uint64(c)).Convert(t), true
	case reflect.Float64, reflect.Float32:
		c, ok := v.(float64)
		if !ok {
			return reflect.Value{}, false
		}
		return reflect.ValueOf(c).Convert(t), true
	case reflect.Bool:
		c, ok := v.(bool)
		if !ok {
			return reflect.Value{}, false
		}
		return reflect.ValueOf(c), true
	case reflect.Slice:
		sl, ok := v.([]Value)
		if !ok {
			return reflect.Value{}, false
		}
		out := reflect.MakeSlice(t, len(sl), len(sl))
		for i, e := range sl {
			ev, ok := toGo(e, t.Elem())
			if !ok {
				return reflect.Value{}, false
			}
			out.Index(i).Set(ev)
		}
		return out, true
	}
	return reflect.Value{}, false
}

func fromGo(v reflect.Value) (Value, bool) {
	switch v.Kind() {
	case reflect.String:
		return v.String(), true
	case reflect.Int, reflect.Int64, reflect.Int32, reflect.Int8, reflect.Int16:
		return v.Int(), true
	case reflect.Uint8, reflect.Uint, reflect.Uint64, reflect.Uint32, reflect.Uint16:
		return int64(v.Uint()), true
	case reflect.Float64:
		return v.Float(), true
	case reflect.Float32:
		return v.Float(), true
	case reflect.Bool:
		return v.Bool(), true
	case reflect.Slice:
		if v.IsNil() {
			return []Value(nil), true
		}
		out := make([]Value, v.Len())
		for i := range out {
			e, ok := fromGo(v.Index(i))
			if !ok {
				return nil, false
			}
			out[i] = e
		}
		return out, true
	case reflect.Interface:
		if v.IsNil() {
			return Iface{}, true
		}
		return nil, false // non-nil error etc.: fall back to interpretation
	}
	return nil, false
}

func wrapNative(f interface{}) nativeFn {
	fv := reflect.ValueOf(f)
	ft := fv.Type()
	return func(in *Interp, args []Value) (res Value, ok bool) {
		if len(args) != ft.NumIn() {
			return nil, false
		}
		goArgs := make([]reflect.Value, len(args))
		for i, a := range args {
			g, ok := toGo(a, ft.In(i))
			if !ok {
				return nil, false
			}
			goArgs[i] = g
		}
		defer func() {
			if r := recover(); r != nil {
				res, ok = nil, false // let the interpreted source raise the panic properly
			}
		}()
		outs := fv.Call(goArgs)
		switch len(outs) {
		case 0:
			return nil, true
		case 1:
			return fromGo(outs[0])
		}
		tup := make(Tuple, len(outs))
		for i, o := range outs {
			v, ok := fromGo(o)
			if !ok {
				return nil, false
			}
			tup[i] = v
		}
		return tup, true
	}
}

func repeatGuard(s string, n int) string {
	if n < 0 || (len(s) > 0 && n > (1<<22)/len(s)) {
		panic("defer to interpreter")
	}
	return strings.Repeat(s, n)
}

var natives = map[string]nativeFn{
	"strings.ToUpper":    wrapNative(strings.ToUpper),
	"strings.ToLower":    wrapNative(strings.ToLower),
	"strings.ReplaceAll": wrapNative(strings.ReplaceAll),
	"strings.Replace":    wrapNative(strings.Replace),
	"strings.Contains":   wrapNative(strings.Contains),
	"strings.Index":      wrapNative(strings.Index),
	"strings.IndexByte":  wrapNative(strings.IndexByte),
	"strings.LastIndex":  wrapNative(strings.LastIndex),
	"strings.Count":      wrapNative(strings.Count),
	"strings.Repeat":     wrapNative(repeatGuard),
	"strings.Trim":       wrapNative(strings.Trim),
	"strings.TrimLeft":   wrapNative(strings.TrimLeft),
	"strings.TrimRight":  wrapNative(strings.TrimRight),
	"strings.TrimSpace":  wrapNative(strings.TrimSpace),
	"strings.TrimPrefix": wrapNative(strings.TrimPrefix),
	"strings.TrimSuffix": wrapNative(strings.TrimSuffix),
	"strings.Split":      wrapNative(strings.Split),
	"strings.Join":       wrapNative(strings.Join),
	"strings.HasPrefix":  wrapNative(strings.HasPrefix),
	"strings.HasSuffix":  wrapNative(strings.HasSuffix),
	"strings.EqualFold":  wrapNative(strings.EqualFold),
	"strings.Fields":     wrapNative(strings.Fields),
	"strconv.ParseInt":   wrapNative(strconv.ParseInt),
	"strconv.ParseUint":  wrapNative(strconv.ParseUint),
	"strconv.ParseFloat": wrapNative(strconv.ParseFloat),
	"strconv.Atoi":       wrapNative(strconv.Atoi),
	"strconv.Itoa":       wrapNative(strconv.Itoa),
	"strconv.FormatInt":  wrapNative(strconv.FormatInt),
	"strconv.FormatUint": wrapNative(strconv.FormatUint),
	"strconv.FormatFloat": wrapNative(func(f float64, fmtc byte, prec, bitSize int) string {
		return strconv.FormatFloat(f, fmtc, prec, bitSize)
	}),
	"strconv.Quote":                  wrapNative(strconv.Quote),
	"html.EscapeString":              wrapNative(html.EscapeString),
	"html.UnescapeString":            wrapNative(html.UnescapeString),
	"unicode/utf8.RuneCountInString": wrapNative(utf8.RuneCountInString),
	"unicode/utf8.ValidString":       wrapNative(utf8.ValidString),
	"unicode/utf8.RuneLen":           wrapNative(utf8.RuneLen),
	"unicode/utf8.ValidRune":         wrapNative(utf8.ValidRune),
	"unicode.ToUpper":                wrapNative(unicode.ToUpper),
	"unicode.ToLower":                wrapNative(unicode.ToLower),
	"unicode.ToTitle":                wrapNative(unicode.ToTitle),
	"unicode.IsUpper":                wrapNative(unicode.IsUpper),
	"unicode.IsLower":                wrapNative(unicode.IsLower),
	"unicode.IsLetter":               wrapNative(unicode.IsLetter),
	"unicode.IsSpace":                wrapNative(unicode.IsSpace),
	"unicode.IsDigit":                wrapNative(unicode.IsDigit),
	"math.Floor":                     wrapNative(math.Floor),
	"math.Ceil":                      wrapNative(math.Ceil),
	"math.Trunc":                     wrapNative(math.Trunc),
	"math.Round":                     wrapNative(math.Round),
	"math.Abs":                       wrapNative(math.Abs),
	"math.IsNaN":                     wrapNative(math.IsNaN),
	"math.IsInf":                     wrapNative(math.IsInf),
	"math.Float64bits":               wrapNative(math.Float64bits),
	"math.Float64frombits":           wrapNative(math.Float64frombits),
	"math.Pow":                       wrapNative(math.Pow),
	"math.Mod":                       wrapNative(math.Mod),
	"path/filepath.Clean":            wrapNative(cleanPath),
	"path/filepath.Join":             wrapNative(func(elems []string) string { return joinPath(elems) }),
	"path/filepath.Base":             wrapNative(basePath),
	"path/filepath.Dir":              wrapNative(dirPath),
	"path/filepath.IsAbs":            wrapNative(func(p string) bool { return strings.HasPrefix(p, "/") }),
}

// ---- intrinsics ----

var intrinsics = map[string]intrinsicFn{}

func init() {
	intrinsics["fmt.Sprintf"] = func(in *Interp, caller *frame, fn *ssa.Function, args []Value) Value {
		return in.sprintf(args[0], args[1].([]Value))
	}
	intrinsics["fmt.Errorf"] = func(in *Interp, caller *frame, fn *ssa.Function, args []Value) Value {
		s := in.sprintf(args[0], args[1].([]Value))
		return in.newErrorString(s)
	}
	intrinsics["fmt.Sprint"] = func(in *Interp, caller *frame, fn *ssa.Function, args []Value) Value {
		var out Value = ""
		for _, a := range args[0].([]Value) {
			out = strConcat(out, in.formatV(a.(Iface), 'v'))
		}
		return out
	}
	intrinsics["fmt.Fprint"] = func(in *Interp, caller *frame, fn *ssa.Function, args []Value) Value {
		var out Value = ""
		for _, a := range args[1].([]Value) {
			out = strConcat(out, in.formatV(a.(Iface), 'v'))
		}
		w := args[0].(Iface)
		if w.T == nil {
			in.throwNilDeref()
		}
		m := in.lookupMethod(w.T, "Write")
		if m == nil {
			panic("fmt.Fprint: writer has no Write method: " + w.T.String())
		}
		b := strBytes(out)
		buf := make([]Value, len(b))
		copy(buf, b)
		r := in.callFunction(caller, m, []Value{w.V, buf}, nil)
		return r
	}
	intrinsics["fmt.Fprintln"] = func(in *Interp, caller *frame, fn *ssa.Function, args []Value) Value {
		var out Value = ""
		for i, a := range args[1].([]Value) {
			if i > 0 {
				out = strConcat(out, " ")
			}
			out = strConcat(out, in.formatV(a.(Iface), 'v'))
		}
		out = strConcat(out, "\n")
		w := args[0].(Iface)
		if w.T == nil {
			in.throwNilDeref()
		}
		m := in.lookupMethod(w.T, "Write")
		b := strBytes(out)
		buf := make([]Value, len(b))
		copy(buf, b)
		return in.callFunction(caller, m, []Value{w.V, buf}, nil)
	}
	intrinsics["fmt.Sprintln"] = func(in *Interp, caller *frame, fn *ssa.Function, args []Value) Value {
		var out Value = ""
		for i, a := range args[0].([]Value) {
			if i > 0 {
				out = strConcat(out, " ")
			}
			out = strConcat(out, in.formatV(a.(Iface), 'v'))
		}
		return strConcat(out, "\n")
	}
	intrinsics["fmt.Fprintf"] = func(in *Interp, caller *frame, fn *ssa.Function, args []Value) Value {
		out := in.sprintf(args[1], args[2].([]Value))
		w := args[0].(Iface)
		if w.T == nil {
			in.throwNilDeref()
		}
		m := in.lookupMethod(w.T, "Write")
		b := strBytes(out)
		buf := make([]Value, len(b))
		copy(buf, b)
		return in.callFunction(caller, m, []Value{w.V, buf}, nil)
	}
	// math on symbolic floats
	symRound := func(mode int, native func(float64) float64) intrinsicFn {
		return func(in *Interp, caller *frame, fn *ssa.Function, args []Value) Value {
			if c, ok := args[0].(float64); ok {
				return native(c)
			}
			return in.st.FRound(args[0].(*term.T), mode)
		}
	}
	intrinsics["math.Floor"] = symRound(term.RTN, math.Floor)
	intrinsics["math.Ceil"] = symRound(term.RTP, math.Ceil)
	intrinsics["math.Trunc"] = symRound(term.RTZ, math.Trunc)
	intrinsics["math.Round"] = symRound(term.RNA, math.Round)
	intrinsics["math.RoundToEven"] = symRound(term.RNE, math.RoundToEven)
	intrinsics["math.Abs"] = func(in *Interp, caller *frame, fn *ssa.Function, args []Value) Value {
		if c, ok := args[0].(float64); ok {
			return math.Abs(c)
		}
		return in.st.FAbs(args[0].(*term.T))
	}
	intrinsics["math.IsNaN"] = func(in *Interp, caller *frame, fn *ssa.Function, args []Value) Value {
		if c, ok := args[0].(float64); ok {
			return math.IsNaN(c)
		}
		return in.boolVal(in.st.FIsNaN(args[0].(*term.T)))
	}
	intrinsics["math.Float64bits"] = func(in *Interp, caller *frame, fn *ssa.Function, args []Value) Value {
		if c, ok := args[0].(float64); ok {
			return int64(math.Float64bits(c))
		}
		t := args[0].(*term.T)
		if t.Op == term.OBitsToFP {
			return t.Args[0]
		}
		in.unsupported("math.Float64bits of a computed symbolic float")
		return nil
	}
	intrinsics["math.Float64frombits"] = func(in *Interp, caller *frame, fn *ssa.Function, args []Value) Value {
		if c, ok := args[0].(int64); ok {
			return math.Float64frombits(uint64(c))
		}
		return in.st.BitsToFP(args[0].(*term.T), term.FP64)
	}
	intrinsics["strconv.FormatFloat"] = func(in *Interp, caller *frame, fn *ssa.Function, args []Value) Value {
		if c, ok := args[0].(float64); ok {
			return strconv.FormatFloat(c, byte(args[1].(int64)), int(args[2].(int64)), int(args[3].(int64)))
		}
		in.unsupported("strconv.FormatFloat of a symbolic float (formatted symbolic numbers have no concrete length)")
		return nil
	}
	intrinsics["strconv.FormatInt"] = func(in *Interp, caller *frame, fn *ssa.Function, args []Value) Value {
		if c, ok := args[0].(int64); ok {
			return strconv.FormatInt(c, int(args[1].(int64)))
		}
		// interpret the library's own FormatInt: the digit-count loop forks per magnitude class (at most 20 per sign)
		// and every digit becomes an ite chain over strconv's digit table
		if fn.Blocks == nil {
			fn.Pkg.Build()
		}
		return in.callSSA(caller, fn, in.plainInfo(fn), args, nil)
	}
	intrinsics["strconv.Itoa"] = func(in *Interp, caller *frame, fn *ssa.Function, args []Value) Value {
		if c, ok := args[0].(int64); ok {
			return strconv.Itoa(int(c))
		}
		return in.formatSymInt(caller, args[0], true)
	}
	delete(natives, "math.Float64bits")
	delete(natives, "math.Float64frombits")
	delete(natives, "strconv.FormatFloat")
	delete(natives, "strconv.FormatInt")
	delete(natives, "strconv.Itoa")
	delete(natives, "math.Floor")
	delete(natives, "math.Ceil")
	delete(natives, "math.Trunc")
	delete(natives, "math.Round")
	delete(natives, "math.Abs")
	delete(natives, "math.IsNaN")

	// sync / atomic (sequential)
	intrinsics["sync/atomic.LoadUint32"] = atomicLoad
	intrinsics["sync/atomic.LoadInt32"] = atomicLoad
	intrinsics["sync/atomic.LoadUint64"] = atomicLoad
	intrinsics["sync/atomic.LoadInt64"] = atomicLoad
	intrinsics["sync/atomic.LoadPointer"] = atomicLoad
	intrinsics["sync/atomic.StoreUint32"] = atomicStore
	intrinsics["sync/atomic.StoreInt32"] = atomicStore
	intrinsics["sync/atomic.StoreUint64"] = atomicStore
	intrinsics["sync/atomic.StoreInt64"] = atomicStore
	intrinsics["sync/atomic.StorePointer"] = atomicStore
	intrinsics["sync/atomic.AddInt32"] = atomicAdd(intInfo{32, true})
	intrinsics["sync/atomic.AddUint32"] = atomicAdd(intInfo{32, false})
	intrinsics["sync/atomic.AddInt64"] = atomicAdd(intInfo{64, true})
	intrinsics["sync/atomic.AddUint64"] = atomicAdd(intInfo{64, false})
	intrinsics["sync/atomic.CompareAndSwapPointer"] = atomicCAS
	intrinsics["sync/atomic.SwapPointer"] = atomicSwap
	intrinsics["sync/atomic.SwapInt32"] = atomicSwap
	intrinsics["sync/atomic.SwapUint32"] = atomicSwap
	intrinsics["sync/atomic.SwapInt64"] = atomicSwap
	intrinsics["sync/atomic.SwapUint64"] = atomicSwap
	intrinsics["sync/atomic.CompareAndSwapInt32"] = atomicCAS
	intrinsics["sync/atomic.CompareAndSwapUint32"] = atomicCAS
	intrinsics["sync/atomic.CompareAndSwapInt64"] = atomicCAS
	intrinsics["sync/atomic.CompareAndSwapUint64"] = atomicCAS
	intrinsics["(*sync.Mutex).Lock"] = func(in *Interp, caller *frame, fn *ssa.Function, args []Value) Value {
		in.syncUse("Mutex.Lock")
		return nil
	}
	intrinsics["(*sync.Mutex).Unlock"] = func(in *Interp, caller *frame, fn *ssa.Function, args []Value) Value { return nil }
	intrinsics["(*sync.RWMutex).Lock"] = func(in *Interp, caller *frame, fn *ssa.Function, args []Value) Value {
		in.syncUse("RWMutex.Lock")
		return nil
	}
	intrinsics["(*sync.RWMutex).Unlock"] = func(in *Interp, caller *frame, fn *ssa.Function, args []Value) Value { return nil }
	intrinsics["(*sync.RWMutex).RLock"] = func(in *Interp, caller *frame, fn *ssa.Function, args []Value) Value {
		in.syncUse("RWMutex.RLock")
		return nil
	}
	intrinsics["(*sync.RWMutex).RUnlock"] = func(in *Interp, caller *frame, fn *ssa.Function, args []Value) Value { return nil }
	intrinsics["(*sync.WaitGroup).Add"] = func(in *Interp, caller *frame, fn *ssa.Function, args []Value) Value { return nil }
	intrinsics["(*sync.WaitGroup).Done"] = func(in *Interp, caller *frame, fn *ssa.Function, args []Value) Value { return nil }
	intrinsics["(*sync.WaitGroup).Wait"] = func(in *Interp, caller *frame, fn *ssa.Function, args []Value) Value {
		in.syncUse("WaitGroup.Wait")
		in.path.Covers = append(in.path.Covers, "engine-goroutines-run-atomically")
		in.runPendingGo(caller)
		return nil
	}
	intrinsics["(*sync.Once).Do"] = func(in *Interp, caller *frame, fn *ssa.Function, args []Value) Value {
		once := args[0].(*Value)
		st := (*once).(Struct)
		// first field is the done flag (atomic.Uint32 struct or uint32) in all supported Go versions
		doneCell := &st[0]
		isDone := false
		switch d := (*doneCell).(type) {
		case Struct:
			// atomic.Uint32{_ noCopy; v uint32}
			isDone = d[len(d)-1].(int64) != 0
		case int64:
			isDone = d != 0
		}
		if isDone {
			return nil
		}
		in.call(caller, args[1], nil)
		switch d := (*doneCell).(type) {
		case Struct:
			d[len(d)-1] = int64(1)
		case int64:
			*doneCell = int64(1)
		}
		return nil
	}
	// sync.Pool as one process sees it when nothing is collected in between: Get hands back the value put last (the
	// per-P private slot), or New() when the pool is empty. Pool operations are synchronised, so they are not logged as
	// conflicting accesses; what a pooled value still holds is visible to the next user, which is what matters here.
	intrinsics["(*sync.Pool).Get"] = func(in *Interp, caller *frame, fn *ssa.Function, args []Value) Value {
		pool := args[0].(*Value)
		if pool == nil {
			in.throwNilDeref()
		}
		if items := in.pools[pool]; len(items) > 0 {
			v := items[len(items)-1]
			in.pools[pool] = items[:len(items)-1]
			return v
		}
		st := (*pool).(Struct)
		newFn := st[len(st)-1] // New func() any is the last field
		if c, ok := newFn.(*Closure); ok && c == nil {
			return Iface{}
		}
		if f, ok := newFn.(*ssa.Function); ok && f == nil {
			return Iface{}
		}
		if newFn == nil {
			return Iface{}
		}
		return in.call(caller, newFn, nil)
	}
	intrinsics["(*sync.Pool).Put"] = func(in *Interp, caller *frame, fn *ssa.Function, args []Value) Value {
		pool := args[0].(*Value)
		if pool == nil {
			in.throwNilDeref()
		}
		if x, ok := args[1].(Iface); ok && x.T == nil {
			return nil
		}
		if in.pools == nil {
			in.pools = map[*Value][]Value{}
		}
		in.pools[pool] = append(in.pools[pool], args[1])
		return nil
	}
	// sync.Map as an ordinary map from interface keys to interface values (its operations are synchronised; Range is
	// not modelled)
	syncMapOf := func(in *Interp, recv Value, create bool) *Map {
		p := recv.(*Value)
		if p == nil {
			in.throwNilDeref()
		}
		if m, ok := in.syncMaps[p]; ok {
			return m
		}
		if !create {
			return nil
		}
		if in.syncMaps == nil {
			in.syncMaps = map[*Value]*Map{}
		}
		m := newMap(types.NewInterfaceType(nil, nil))
		in.syncMaps[p] = m
		return m
	}
	intrinsics["(*sync.Map).Load"] = func(in *Interp, caller *frame, fn *ssa.Function, args []Value) Value {
		in.syncUse("sync.Map.Load")
		if v, ok := in.mapLookup(syncMapOf(in, args[0], false), args[1]); ok {
			return Tuple{v, true}
		}
		return Tuple{Iface{}, false}
	}
	intrinsics["(*sync.Map).Store"] = func(in *Interp, caller *frame, fn *ssa.Function, args []Value) Value {
		in.syncUse("sync.Map.Store")
		in.mapUpdate(syncMapOf(in, args[0], true), args[1], args[2])
		return nil
	}
	intrinsics["(*sync.Map).LoadOrStore"] = func(in *Interp, caller *frame, fn *ssa.Function, args []Value) Value {
		in.syncUse("sync.Map.LoadOrStore")
		m := syncMapOf(in, args[0], true)
		if v, ok := in.mapLookup(m, args[1]); ok {
			return Tuple{v, true}
		}
		in.mapUpdate(m, args[1], args[2])
		return Tuple{args[2], false}
	}
	intrinsics["(*sync.Map).Delete"] = func(in *Interp, caller *frame, fn *ssa.Function, args []Value) Value {
		in.syncUse("sync.Map.Delete")
		in.mapDelete(syncMapOf(in, args[0], false), args[1])
		return nil
	}
	intrinsics["(*sync.Map).Range"] = func(in *Interp, caller *frame, fn *ssa.Function, args []Value) Value {
		in.unsupported("sync.Map.Range")
		return nil
	}
	intrinsics["maps.clone"] = func(in *Interp, caller *frame, fn *ssa.Function, args []Value) Value {
		i := args[0].(Iface)
		m, ok := i.V.(*Map)
		if !ok {
			in.unsupported("maps.clone of a non-map")
		}
		if m == nil {
			return i
		}
		c := newMap(m.tKey)
		for k := range m.keys {
			if !m.dead[k] {
				in.mapUpdate(c, m.keys[k], copyVal(m.vals[k]))
			}
		}
		return Iface{T: i.T, V: c}
	}
	intrinsics["internal/stringslite.Clone"] = func(in *Interp, caller *frame, fn *ssa.Function, args []Value) Value { return args[0] }
	intrinsics["strings.Clone"] = func(in *Interp, caller *frame, fn *ssa.Function, args []Value) Value { return args[0] }
	intrinsics["internal/abi.NoEscape"] = func(in *Interp, caller *frame, fn *ssa.Function, args []Value) Value { return args[0] }
	intrinsics["internal/abi.Escape"] = func(in *Interp, caller *frame, fn *ssa.Function, args []Value) Value { return args[0] }
	intrinsics["internal/bytealg.MakeNoZero"] = func(in *Interp, caller *frame, fn *ssa.Function, args []Value) Value {
		n := in.allocSize(args[0], "makeslice: len out of range")
		sl := make([]Value, n)
		for i := range sl {
			sl[i] = int64(0)
		}
		return sl
	}
	intrinsics["internal/godebug.(*Setting).Value"] = func(in *Interp, caller *frame, fn *ssa.Function, args []Value) Value { return "" }
	intrinsics["(*internal/godebug.Setting).Value"] = func(in *Interp, caller *frame, fn *ssa.Function, args []Value) Value { return "" }
	intrinsics["(*internal/godebug.Setting).IncNonDefault"] = func(in *Interp, caller *frame, fn *ssa.Function, args []Value) Value { return nil }
	intrinsics["internal/race.Acquire"] = func(in *Interp, caller *frame, fn *ssa.Function, args []Value) Value { return nil }
	intrinsics["runtime.KeepAlive"] = func(in *Interp, caller *frame, fn *ssa.Function, args []Value) Value { return nil }
	intrinsics["time.Now"] = func(in *Interp, caller *frame, fn *ssa.Function, args []Value) Value {
		in.nondetUse("time.Now")
		return zero(fn.Signature.Results().At(0).Type())
	}
	intrinsics["(time.Time).UnixNano"] = func(in *Interp, caller *frame, fn *ssa.Function, args []Value) Value { return int64(0) }
	intrinsics["(time.Time).Unix"] = func(in *Interp, caller *frame, fn *ssa.Function, args []Value) Value { return int64(0) }
	intrinsics["math/rand.NewSource"] = func(in *Interp, caller *frame, fn *ssa.Function, args []Value) Value { return Iface{} }
	// rand.New gives a generator object whose state is one cell: every draw reads and writes it (plain accesses, so a
	// generator shared by concurrent callers shows up in the access log) and returns an environment-chosen value
	intrinsics["math/rand.New"] = func(in *Interp, caller *frame, fn *ssa.Function, args []Value) Value {
		cell := zero(fn.Signature.Results().At(0).Type().(*types.Pointer).Elem())
		return &cell
	}
	intrinsics["(*math/rand.Rand).Intn"] = func(in *Interp, caller *frame, fn *ssa.Function, args []Value) Value {
		r := args[0].(*Value)
		if r == nil {
			in.throwNilDeref()
		}
		in.noteRead(r)
		in.noteWrite(r)
		return intrinsics["math/rand.Intn"](in, caller, fn, args[1:])
	}
	intrinsics["math/rand.Intn"] = func(in *Interp, caller *frame, fn *ssa.Function, args []Value) Value {
		// environment nondeterminism: any value in [0, n)
		in.nondetUse("math/rand.Intn")
		n, ok := args[0].(int64)
		if !ok {
			in.unsupported("rand.Intn with symbolic bound")
		}
		if n <= 0 {
			in.throw("explicit", "invalid argument to Intn", Iface{T: types.Typ[types.String], V: "invalid argument to Intn"})
		}
		t := in.newInput("env.rand.Intn", "env", term.BV(64))
		in.assumeTerm(in.st.Cmp(term.OULt, t, in.st.BVC(uint64(n), 64)))
		return in.fromTerm(t, intInfo{64, true})
	}
	intrinsics["os.ReadFile"] = func(in *Interp, caller *frame, fn *ssa.Function, args []Value) Value {
		return in.vfsReadFile(fn, args[0])
	}
	// os.Open / io.ReadAll / (*os.File).Close on the virtual file system (used by the repository's test helpers)
	intrinsics["os.Open"] = func(in *Interp, caller *frame, fn *ssa.Function, args []Value) Value {
		r := in.vfsReadFile(fn, args[0]).(Tuple)
		ft := fn.Signature.Results().At(0).Type().(*types.Pointer)
		if e, ok := r[1].(Iface); ok && e.T != nil {
			var nilp *Value
			return Tuple{nilp, r[1]}
		}
		cell := zero(ft.Elem())
		p := &cell
		if in.openFiles == nil {
			in.openFiles = map[*Value][]Value{}
		}
		in.openFiles[p] = r[0].([]Value)
		return Tuple{p, Iface{}}
	}
	intrinsics["(*os.File).Read"] = func(in *Interp, caller *frame, fn *ssa.Function, args []Value) Value {
		f := args[0].(*Value)
		content, ok := in.openFiles[f]
		if f == nil || !ok {
			in.unsupported("(*os.File).Read on a file that was not opened through os.Open")
		}
		buf := args[1].([]Value)
		if len(content) == 0 {
			if len(buf) == 0 {
				return Tuple{int64(0), Iface{}}
			}
			return Tuple{int64(0), in.ioEOF()}
		}
		n := copy(buf, content)
		in.openFiles[f] = content[n:]
		return Tuple{int64(n), Iface{}}
	}
	intrinsics["(*os.File).Close"] = func(in *Interp, caller *frame, fn *ssa.Function, args []Value) Value { return Iface{} }
	intrinsics["io.ReadAll"] = func(in *Interp, caller *frame, fn *ssa.Function, args []Value) Value {
		if r, ok := args[0].(Iface); ok {
			if p, ok := r.V.(*Value); ok {
				if content, ok := in.openFiles[p]; ok {
					out := make([]Value, len(content))
					copy(out, content)
					in.openFiles[p] = nil
					return Tuple{out, Iface{}}
				}
			}
		}
		if fn.Blocks == nil {
			fn.Pkg.Build()
		}
		return in.callSSA(caller, fn, in.ssaInfo(fn), args, nil)
	}
	intrinsics["path/filepath.Abs"] = func(in *Interp, caller *frame, fn *ssa.Function, args []Value) Value {
		if _, isSym := args[0].(*SymStr); isSym {
			// interpret the library's own Abs (Clean/Join are pure Go); only the working directory is virtual
			if fn.Blocks == nil {
				fn.Pkg.Build()
			}
			delete(in.fninfo, fn)
			fi := &fnInfo{idx: map[ssa.Value]int{}, name: fn.String()}
			n := 0
			for _, p := range fn.Params {
				fi.idx[p] = n
				n++
			}
			for _, b := range fn.Blocks {
				for _, ins := range b.Instrs {
					if v, ok := ins.(ssa.Value); ok {
						fi.idx[v] = n
						n++
					}
				}
			}
			fi.nregs = n
			r := in.callSSA(caller, fn, fi, args, nil)
			in.classify(fn, fi)
			in.fninfo[fn] = fi
			return r
		}
		return in.vfsAbs(args[0])
	}
	intrinsics["os.Getwd"] = func(in *Interp, caller *frame, fn *ssa.Function, args []Value) Value {
		return Tuple{in.vfsGet().cwd, Iface{}}
	}
	intrinsics["path/filepath.Walk"] = func(in *Interp, caller *frame, fn *ssa.Function, args []Value) Value {
		return in.vfsWalk(caller, fn, args[0], args[1])
	}
	intrinsics["errors.Is"] = func(in *Interp, caller *frame, fn *ssa.Function, args []Value) Value {
		return in.errorsIs(caller, args[0].(Iface), args[1].(Iface))
	}
	intrinsics["errors.As"] = func(in *Interp, caller *frame, fn *ssa.Function, args []Value) Value {
		return in.errorsAs(caller, args[0].(Iface), args[1].(Iface))
	}
	registerReflect()
}

func atomicLoad(in *Interp, caller *frame, fn *ssa.Function, args []Value) Value {
	in.syncUse(fn.Name())
	return in.loadPtr(args[0])
}

func atomicStore(in *Interp, caller *frame, fn *ssa.Function, args []Value) Value {
	in.syncUse(fn.Name())
	in.inAtomic = true
	in.storePtr(args[0], args[1])
	in.inAtomic = false
	return nil
}

func atomicAdd(ii intInfo) intrinsicFn {
	return func(in *Interp, caller *frame, fn *ssa.Function, args []Value) Value {
		in.syncUse(fn.Name())
		old := in.loadPtr(args[0])
		nv := in.intBinop(tokenADD, ii, nil, old, args[1])
		in.inAtomic = true
		in.storePtr(args[0], nv)
		in.inAtomic = false
		return nv
	}
}

func atomicSwap(in *Interp, caller *frame, fn *ssa.Function, args []Value) Value {
	in.syncUse(fn.Name())
	old := in.loadPtr(args[0])
	in.inAtomic = true
	in.storePtr(args[0], args[1])
	in.inAtomic = false
	return old
}

func atomicCAS(in *Interp, caller *frame, fn *ssa.Function, args []Value) Value {
	in.syncUse(fn.Name())
	old := in.loadPtr(args[0])
	if in.branchVal(in.equals(nil, old, args[1])) {
		in.inAtomic = true
		in.storePtr(args[0], args[2])
		in.inAtomic = false
		return true
	}
	return false
}

func (in *Interp) syncUse(what string) {
	if in.path != nil && !in.initMode {
		in.syncUses = append(in.syncUses, what+" at "+in.posString())
	}
}

func (in *Interp) nondetUse(what string) {
	if in.path != nil && !in.initMode {
		in.nondetUses = append(in.nondetUses, what+" at "+in.posString())
	}
}

// newErrorString builds errors.New(s) by calling the real constructor.
func (in *Interp) newErrorString(s Value) Value {
	pkg := in.prog.ImportedPackage("errors")
	f := pkg.Func("New")
	return in.callFunction(in.cur, f, []Value{s}, nil)
}

func (in *Interp) errorsIs(caller *frame, err, target Iface) Value {
	for depth := 0; depth < 32; depth++ {
		if err.T == nil {
			return target.T == nil
		}
		if target.T != nil && types.Identical(err.T, target.T) && types.Comparable(err.T) {
			if in.branchVal(in.equals(err.T, err.V, target.V)) {
				return true
			}
		}
		if m := in.lookupMethod(err.T, "Is"); m != nil && m.Signature.Params().Len() == 1 {
			r := in.callFunction(caller, m, []Value{err.V, target}, nil)
			if in.branchVal(r) {
				return true
			}
		}
		m := in.lookupMethod(err.T, "Unwrap")
		if m == nil || m.Signature.Results().Len() != 1 {
			return false
		}
		if _, isSlice := m.Signature.Results().At(0).Type().Underlying().(*types.Slice); isSlice {
			return false
		}
		r := in.callFunction(caller, m, []Value{err.V}, nil)
		err = r.(Iface)
	}
	return false
}

// errorsAs: errors.As(err, target) for a target that points to a variable of interface or concrete type.
func (in *Interp) errorsAs(caller *frame, err, target Iface) Value {
	pt, ok := target.T.(*types.Pointer)
	cell, ok2 := target.V.(*Value)
	if target.T == nil || !ok || !ok2 || cell == nil {
		in.throw("explicit", "errors: target must be a non-nil pointer", Iface{T: types.Typ[types.String], V: "errors: target must be a non-nil pointer"})
	}
	want := pt.Elem()
	wantIface, isIface := want.Underlying().(*types.Interface)
	for depth := 0; depth < 32; depth++ {
		if err.T == nil {
			return false
		}
		if isIface {
			if types.Implements(err.T, wantIface) {
				in.storePtr(cell, err)
				return true
			}
		} else if types.Identical(err.T, want) {
			in.storePtr(cell, err.V)
			return true
		}
		if m := in.lookupMethod(err.T, "As"); m != nil {
			in.unsupported("errors.As through an As method")
		}
		m := in.lookupMethod(err.T, "Unwrap")
		if m == nil || m.Signature.Results().Len() != 1 {
			return false
		}
		if _, isSlice := m.Signature.Results().At(0).Type().Underlying().(*types.Slice); isSlice {
			in.unsupported("errors.As through Unwrap() []error")
		}
		r := in.callFunction(caller, m, []Value{err.V}, nil)
		err = r.(Iface)
	}
	return false
}

// tryStringMethod calls Error() or String() on an interface value if it has one.
func (in *Interp) tryStringMethod(i Iface) (string, bool) {
	v, ok := in.tryStringMethodV(i)
	if !ok {
		return "", false
	}
	if s, ok := v.(string); ok {
		return s, true
	}
	return ValueString(v), true
}

func (in *Interp) tryStringMethodV(i Iface) (Value, bool) {
	if i.T == nil {
		return nil, false
	}
	for _, name := range []string{"Error", "String"} {
		m := in.lookupMethod(i.T, name)
		if m == nil {
			continue
		}
		sig := m.Signature
		if sig.Params().Len() != 0 || sig.Results().Len() != 1 || !isString(sig.Results().At(0).Type()) {
			continue
		}
		return in.callFunction(in.cur, m, []Value{i.V}, nil), true
	}
	return nil, false
}

// ---- fmt ----

// sprintfSym handles a format string with symbolic bytes and no operands (the shape fail.FromError produces when it
// passes an error text as format): every '%' starts a directive that has no operand.
func (in *Interp) sprintfSym(format Value, args []Value) Value {
	if len(args) != 0 {
		in.unsupported("fmt.Sprintf with symbolic format string and operands")
	}
	b := strBytes(format)
	st := in.st
	is := func(v Value, c byte) bool { return in.branch(in.byteEq(v, int64(c))) }
	var out []Value
	i := 0
	for i < len(b) {
		if !is(b[i], '%') {
			out = append(out, b[i])
			i++
			continue
		}
		i++
		// flags, width, precision
		for i < len(b) {
			t := in.intTerm(b[i], 8)
			c8 := func(c byte) *term.T { return st.BVC(uint64(c), 8) }
			flag := st.Or(st.Or(st.Eq(t, c8('#')), st.Eq(t, c8('+'))), st.Or(st.Eq(t, c8('-')), st.Or(st.Eq(t, c8(' ')), st.Eq(t, c8('.')))))
			digit := st.And(st.Cmp(term.OULe, c8('0'), t), st.Cmp(term.OULe, t, c8('9')))
			if !in.branch(st.Or(flag, digit)) {
				break
			}
			i++
		}
		if i >= len(b) {
			out = append(out, strBytes("%!(NOVERB)")...)
			break
		}
		v := b[i]
		i++
		if is(v, '%') {
			out = append(out, int64('%'))
			continue
		}
		if is(v, '*') || is(v, '[') {
			in.unsupported("fmt.Sprintf: symbolic format with '*' or '[' directive")
		}
		if !in.branch(st.Cmp(term.OULt, in.intTerm(v, 8), st.BVC(0x80, 8))) {
			in.unsupported("fmt.Sprintf: symbolic format with a non-ASCII verb")
		}
		out = append(out, strBytes("%!")...)
		out = append(out, v)
		out = append(out, strBytes("(MISSING)")...)
	}
	return mkStr(out)
}

func (in *Interp) sprintf(format Value, args []Value) Value {
	f, ok := format.(string)
	if !ok {
		return in.sprintfSym(format, args)
	}
	var out Value = ""
	argi := 0
	i := 0
	lit := func(s string) { out = strConcat(out, s) }
	for i < len(f) {
		j := strings.IndexByte(f[i:], '%')
		if j < 0 {
			lit(f[i:])
			break
		}
		lit(f[i : i+j])
		i += j + 1
		if i >= len(f) {
			lit("%!(NOVERB)")
			break
		}
		// flags / width / precision
		start := i
		for i < len(f) && strings.IndexByte("+-# 0123456789.", f[i]) >= 0 {
			i++
		}
		if i >= len(f) {
			lit("%!(NOVERB)")
			break
		}
		spec := f[start:i]
		verb := f[i]
		i++
		if verb == '%' {
			lit("%")
			continue
		}
		if argi >= len(args) {
			lit("%!" + string(verb) + "(MISSING)")
			continue
		}
		a := args[argi].(Iface)
		argi++
		out = strConcat(out, in.formatArg(a, verb, spec))
	}
	if argi < len(args) {
		lit("%!(EXTRA ")
		for k := argi; k < len(args); k++ {
			if k > argi {
				lit(", ")
			}
			a := args[k].(Iface)
			if a.T == nil {
				lit("<nil>")
			} else {
				lit(a.T.String() + "=")
				out = strConcat(out, in.formatV(a, 'v'))
			}
		}
		lit(")")
	}
	return out
}

func (in *Interp) formatArg(a Iface, verb byte, spec string) Value {
	if verb == 'T' {
		if a.T == nil {
			return "<nil>"
		}
		return typeStringForFmt(a.T)
	}
	if a.T == nil {
		if verb == 'v' || verb == 's' || verb == 'd' {
			if verb == 'v' {
				return "<nil>"
			}
			return "%!" + string(verb) + "(<nil>)"
		}
		return "%!" + string(verb) + "(<nil>)"
	}
	switch verb {
	case 's', 'v':
		if spec != "" && spec != "+" {
			in.unsupported("fmt verb %" + spec + string(verb))
		}
		return in.formatV(a, verb)
	case 'q':
		s, ok := in.stringOf(a)
		if !ok {
			in.unsupported("fmt %q of non-string")
		}
		cs, ok := s.(string)
		if !ok {
			in.unsupported("fmt %q of symbolic string")
		}
		return strconv.Quote(cs)
	case 'd':
		v := a.V
		ii, ok := intInfoOf(a.T)
		if !ok {
			return "%!d(" + typeStringForFmt(a.T) + ")"
		}
		if spec != "" {
			in.unsupported("fmt verb %" + spec + "d")
		}
		c, ok := v.(int64)
		if !ok {
			t := v.(*term.T)
			if ii.w < 64 {
				if ii.signed {
					t = in.st.SExt(t, 64)
				} else {
					t = in.st.ZExt(t, 64)
				}
			}
			return in.formatSymInt(in.cur, t, ii.signed)
		}
		if ii.signed {
			return strconv.FormatInt(c, 10)
		}
		return strconv.FormatUint(uint64(c), 10)
	case 'f', 'g', 'e':
		c, ok := a.V.(float64)
		if !ok {
			if _, isT := a.V.(*term.T); isT {
				in.unsupported("fmt %f of symbolic float")
			}
			return "%!" + string(verb) + "(" + typeStringForFmt(a.T) + ")"
		}
		return fmt.Sprintf("%"+spec+string(verb), c)
	case 'c':
		if c, ok := a.V.(int64); ok {
			return string(rune(c))
		}
		return in.runeToString(a.V)
	case 'x':
		if c, ok := a.V.(int64); ok {
			return fmt.Sprintf("%"+spec+"x", c)
		}
	case 't':
		if c, ok := a.V.(bool); ok {
			return fmt.Sprint(c)
		}
	case 'p':
		return "0xc000000000"
	}
	in.unsupported("fmt verb %" + spec + string(verb) + " for " + a.T.String())
	return nil
}

func (in *Interp) stringOf(a Iface) (Value, bool) {
	if isString(a.T) {
		return a.V, true
	}
	return in.tryStringMethodV(a)
}

// formatV renders %v / %s.
func (in *Interp) formatV(a Iface, verb byte) Value {
	if a.T == nil {
		return "<nil>"
	}
	if s, ok := in.tryStringMethodV(a); ok {
		return s
	}
	switch v := a.V.(type) {
	case string, *SymStr:
		return v
	case *term.T:
		if ii, ok := intInfoOf(a.T); ok && verb != 's' {
			t := v
			if ii.w < 64 {
				if ii.signed {
					t = in.st.SExt(t, 64)
				} else {
					t = in.st.ZExt(t, 64)
				}
			}
			return in.formatSymInt(in.cur, t, ii.signed)
		}
		in.unsupported("fmt %v of symbolic scalar")
	case int64:
		if verb == 's' {
			return "%!s(" + typeStringForFmt(a.T) + "=" + strconv.FormatInt(v, 10) + ")"
		}
		if ii, ok := intInfoOf(a.T); ok && !ii.signed {
			return strconv.FormatUint(uint64(v), 10)
		}
		return strconv.FormatInt(v, 10)
	case bool:
		if verb == 's' {
			return "%!s(bool=" + fmt.Sprint(v) + ")"
		}
		return fmt.Sprint(v)
	case float64:
		if verb == 's' {
			return "%!s(" + typeStringForFmt(a.T) + "=" + fmt.Sprint(v) + ")"
		}
		if w, _ := isFloat(a.T); w == 32 {
			return fmt.Sprint(float32(v))
		}
		return fmt.Sprint(v)
	case []Value:
		if eb, ok := a.T.Underlying().(*types.Slice); ok {
			var out Value = "["
			for i, e := range v {
				if i > 0 {
					out = strConcat(out, " ")
				}
				out = strConcat(out, in.formatV(in.asIface(eb.Elem(), e), verb))
			}
			return strConcat(out, "]")
		}
	case *Map:
		// fmt sorts map keys
		mt := a.T.Underlying().(*types.Map)
		type kv struct {
			k string
			v Value
		}
		var kvs []kv
		if v != nil {
			for i := range v.keys {
				if v.dead[i] {
					continue
				}
				ks, ok := in.formatV(in.asIface(mt.Key(), v.keys[i]), 'v').(string)
				if !ok {
					in.unsupported("fmt of map with symbolic keys")
				}
				kvs = append(kvs, kv{ks, v.vals[i]})
			}
		}
		sortKVs(kvs, func(i, j int) bool { return kvs[i].k < kvs[j].k }, func(i, j int) { kvs[i], kvs[j] = kvs[j], kvs[i] })
		var out Value = "map["
		for i, e := range kvs {
			if i > 0 {
				out = strConcat(out, " ")
			}
			out = strConcat(out, e.k+":")
			out = strConcat(out, in.formatV(in.asIface(mt.Elem(), e.v), verb))
		}
		return strConcat(out, "]")
	case *Value:
		if v == nil {
			return "<nil>"
		}
		if st, ok := (*v).(Struct); ok {
			if pt, ok := a.T.Underlying().(*types.Pointer); ok {
				return strConcat("&", in.formatV(Iface{T: pt.Elem(), V: st}, verb))
			}
		}
		return "0xc000012345"
	case Struct:
		stt, ok := a.T.Underlying().(*types.Struct)
		if ok {
			var out Value = "{"
			for i, f := range v {
				if i > 0 {
					out = strConcat(out, " ")
				}
				out = strConcat(out, in.formatV(in.asIface(stt.Field(i).Type(), f), verb))
			}
			return strConcat(out, "}")
		}
	case *chanVal:
		return "0xc000054321"
	case *ssa.Function, *Closure:
		return "0x4a5b6c"
	case complex128:
		return fmt.Sprint(v)
	case Iface:
		return in.formatV(v, verb)
	}
	in.unsupported(fmt.Sprintf("fmt %%%c of %s (%T)", verb, a.T, a.V))
	return nil
}

// asIface wraps a value of static type t as an interface value (identity for interface-typed values).
func (in *Interp) asIface(t types.Type, v Value) Iface {
	if i, ok := v.(Iface); ok {
		return i
	}
	return Iface{T: t, V: v}
}

func sortKVs(x interface{}, less func(i, j int) bool, swap func(i, j int)) {
	n := reflect.ValueOf(x).Len()
	for i := 1; i < n; i++ {
		for j := i; j > 0 && less(j, j-1); j-- {
			swap(j, j-1)
		}
	}
}

func typeStringForFmt(t types.Type) string {
	return types.TypeString(t, func(p *types.Package) string { return p.Name() })
}

// formatSymInt renders a symbolic 64-bit integer in base 10 by interpreting strconv.FormatInt / FormatUint.
func (in *Interp) formatSymInt(caller *frame, v Value, signed bool) Value {
	pkg := in.prog.ImportedPackage("strconv")
	name := "FormatInt"
	if !signed {
		name = "FormatUint"
	}
	f := pkg.Func(name)
	if f.Blocks == nil {
		pkg.Build()
	}
	return in.callSSA(caller, f, in.plainInfo(f), []Value{v, int64(10)}, nil)
}

// plainInfo builds register numbering for fn without consulting the intrinsic tables (used to run the library's own
// body of a function that is normally intercepted).
func (in *Interp) plainInfo(fn *ssa.Function) *fnInfo {
	if fi, ok := in.plain[fn]; ok {
		return fi
	}
	fi := &fnInfo{idx: map[ssa.Value]int{}, name: fn.String()}
	n := 0
	for _, p := range fn.Params {
		fi.idx[p] = n
		n++
	}
	for _, fv := range fn.FreeVars {
		fi.idx[fv] = n
		n++
	}
	for _, b := range fn.Blocks {
		for _, ins := range b.Instrs {
			if v, ok := ins.(ssa.Value); ok {
				fi.idx[v] = n
				n++
			}
		}
	}
	fi.nregs = n
	if in.plain == nil {
		in.plain = map[*ssa.Function]*fnInfo{}
	}
	in.plain[fn] = fi
	return fi
}

// lookupMethod finds an exported method by name in the method set of t (nil if absent).
func (in *Interp) lookupMethod(t types.Type, name string) *ssa.Function {
	if t == nil || types.IsInterface(t) || isRTypeMarker(t) {
		return nil
	}
	sel := in.prog.MethodSets.MethodSet(t).Lookup(nil, name)
	if sel == nil {
		return nil
	}
	return in.prog.MethodValue(sel)
}

// ioEOF: the value of the package variable io.EOF.
func (in *Interp) ioEOF() Value {
	if pkg := in.prog.ImportedPackage("io"); pkg != nil {
		if g, ok := pkg.Members["EOF"].(*ssa.Global); ok {
			if cell, ok := in.globals[g]; ok {
				return *cell
			}
		}
	}
	in.unsupported("io.EOF is not initialised")
	return nil
}
