package interp

import (
	"fmt"
	"go/types"
	"sort"

	"golang.org/x/tools/go/ssa"
)

func (in *Interp) zeroGlobals(pkg *ssa.Package) {
	for _, m := range pkg.Members {
		if g, ok := m.(*ssa.Global); ok {
			cell := zero(deref(g.Type()))
			if old, ok := in.globals[g]; ok {
				*old = cell // keep the address stable: functions may have captured it? (no: globals are looked up per use)
			} else {
				in.globals[g] = &cell
			}
			if c, ok := in.cfg.Embeds[g.String()]; ok {
				*in.globals[g] = c
			}
		}
	}
}

func (in *Interp) runInit(pkg *ssa.Package) {
	f := pkg.Func("init")
	if f == nil {
		return
	}
	if f.Blocks == nil {
		pkg.Build()
	}
	fi := in.info(f)
	in.callSSA(nil, f, fi, nil, nil)
}

// initAll prepares global state for a path: standard-library packages once per worker, repository packages per path.
func (in *Interp) initAll() {
	in.initMode = true
	defer func() { in.initMode = false }()
	if !in.stdInit {
		for _, pkg := range in.cfg.StdInitPkgs {
			in.zeroGlobals(pkg)
		}
		for _, pkg := range in.cfg.StdInitPkgs {
			in.runInit(pkg)
		}
		// package os is not initialised (its init touches the real process state); its error sentinels are
		// aliases of io/fs's and are copied over
		if osPkg, fsPkg := in.prog.ImportedPackage("os"), in.prog.ImportedPackage("io/fs"); osPkg != nil && fsPkg != nil {
			for _, n := range []string{"ErrInvalid", "ErrPermission", "ErrExist", "ErrNotExist", "ErrClosed"} {
				og, ok1 := osPkg.Members[n].(*ssa.Global)
				fg, ok2 := fsPkg.Members[n].(*ssa.Global)
				if ok1 && ok2 {
					if cell, ok := in.globals[fg]; ok {
						v := *cell
						in.globals[og] = &v
					}
				}
			}
		}
		in.stdInit = true
	}
	for _, pkg := range in.cfg.RepoPkgs {
		in.zeroGlobals(pkg)
	}
	for _, pkg := range in.cfg.RepoPkgs {
		in.runInit(pkg)
	}
	in.path.Steps = 0
	in.path.Allocs = 0
	in.frozen = nil
	in.frozenMaps = nil
	in.sharedWrites = nil
	in.sharedReads = nil
	in.atomicWritten = nil
	in.phases = nil
	in.phase = 0
	in.syncUses = nil
	in.pools = nil
	in.pendingGo = nil
	in.syncMaps = nil
	in.openFiles = nil
	in.testFailed, in.testMsg = false, ""
	in.vfs = nil
	in.nondetUses = nil
	in.MapOrder = in.cfg.MapOrder
}

// ---- freeze: non-interference bookkeeping (C15/C16) ----

func (in *Interp) freeze() {
	in.frozen = map[*Value]bool{}
	in.frozenMaps = map[*Map]bool{}
	repo := map[*ssa.Package]bool{}
	for _, p := range in.cfg.RepoPkgs {
		repo[p] = true
	}
	for g, cell := range in.globals {
		if repo[g.Pkg] {
			in.freezeCell(cell)
		}
	}
}

func (in *Interp) freezeCell(p *Value) {
	if p == nil || in.frozen[p] {
		return
	}
	in.frozen[p] = true
	in.freezeVal(*p)
}

func (in *Interp) freezeVal(v Value) {
	switch v := v.(type) {
	case *Value:
		in.freezeCell(v)
	case Struct:
		for i := range v {
			in.freezeCell(&v[i])
		}
	case Array:
		for i := range v {
			in.freezeCell(&v[i])
		}
	case []Value:
		full := v[:cap(v)]
		for i := range full {
			in.freezeCell(&full[i])
		}
	case *Map:
		if v == nil || in.frozenMaps[v] {
			return
		}
		in.frozenMaps[v] = true
		for i := range v.keys {
			in.freezeVal(v.keys[i])
			in.freezeVal(v.vals[i])
		}
	case Iface:
		in.freezeVal(v.V)
	case *Closure:
		if v != nil {
			for _, e := range v.Env {
				in.freezeVal(e)
			}
		}
	case Tuple:
		for _, e := range v {
			in.freezeVal(e)
		}
	}
}

type phaseLog struct {
	writes  map[interface{}]string // plain stores to shared cells / maps
	awrites map[interface{}]string // atomic stores
	reads   map[interface{}]string
}

func (in *Interp) plog() *phaseLog {
	if in.phases == nil {
		in.phases = map[int]*phaseLog{}
	}
	l := in.phases[in.phase]
	if l == nil {
		l = &phaseLog{writes: map[interface{}]string{}, awrites: map[interface{}]string{}, reads: map[interface{}]string{}}
		in.phases[in.phase] = l
	}
	return l
}

// phaseConflicts: shared locations stored to (plainly) in one phase and accessed in another, or stored atomically in
// one phase and read/written plainly in another. Two calls whose phases have no such location cannot race.
func (in *Interp) phaseConflicts() []string {
	var out []string
	for a, la := range in.phases {
		for b, lb := range in.phases {
			if a == b || a == 0 || b == 0 {
				continue
			}
			for loc, w := range la.writes {
				if r, ok := lb.reads[loc]; ok {
					out = append(out, "store at "+w+" (call "+fmt.Sprint(a)+") / read at "+r+" (call "+fmt.Sprint(b)+")")
				} else if w2, ok := lb.writes[loc]; ok && a < b {
					out = append(out, "store at "+w+" (call "+fmt.Sprint(a)+") / store at "+w2+" (call "+fmt.Sprint(b)+")")
				} else if w2, ok := lb.awrites[loc]; ok {
					out = append(out, "store at "+w+" (call "+fmt.Sprint(a)+") / atomic store at "+w2+" (call "+fmt.Sprint(b)+")")
				}
			}
		}
	}
	sort.Strings(out)
	return out
}

func (in *Interp) noteWrite(p *Value) {
	if in.frozen != nil && in.frozen[p] && in.phase != 0 {
		l := in.plog()
		if in.inAtomic {
			l.awrites[p] = in.posString()
		} else {
			l.writes[p] = in.posString()
		}
	}
	if in.frozen != nil && in.frozen[p] {
		if in.inAtomic {
			if in.atomicWritten == nil {
				in.atomicWritten = map[*Value]string{}
			}
			in.atomicWritten[p] = in.posString()
			return
		}
		in.sharedWrites = append(in.sharedWrites, "store at "+in.posString())
	}
}

func (in *Interp) noteRead(p *Value) {
	if in.frozen != nil && in.frozen[p] && in.phase != 0 && !in.inAtomic {
		l := in.plog()
		if _, ok := l.reads[p]; !ok {
			l.reads[p] = in.posString()
		}
	}
	if in.frozen != nil && in.frozen[p] {
		if in.sharedReads == nil {
			in.sharedReads = map[*Value]string{}
		}
		if _, ok := in.sharedReads[p]; !ok {
			in.sharedReads[p] = in.posString()
		}
	}
}

// atomicConflicts: shared cells that are written atomically by one call and read (at all) on this path.
func (in *Interp) atomicConflicts() []string {
	var out []string
	for p, w := range in.atomicWritten {
		if r, ok := in.sharedReads[p]; ok {
			out = append(out, "atomic store at "+w+" / read at "+r)
		}
	}
	return out
}

func (in *Interp) noteMapRead(m *Map) {
	if in.frozenMaps != nil && in.frozenMaps[m] && in.phase != 0 {
		l := in.plog()
		if _, ok := l.reads[m]; !ok {
			l.reads[m] = in.posString()
		}
	}
}

func (in *Interp) noteMapWrite(m *Map) {
	if in.frozenMaps != nil && in.frozenMaps[m] && in.phase != 0 {
		in.plog().writes[m] = in.posString()
	}
	if in.frozenMaps != nil && in.frozenMaps[m] {
		in.sharedWrites = append(in.sharedWrites, "map write at "+in.posString())
	}
}

var _ = fmt.Sprint
var _ types.Type
