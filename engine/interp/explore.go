package interp

import (
	"fmt"
	"hash/fnv"
	"math"
	"os"
	"runtime/debug"
	"sort"
	"strconv"
	"strings"
	"sync"
	"time"

	"golang.org/x/tools/go/ssa"

	"symgo/smt"
	"symgo/term"
)

// Input is one nondeterministic input created by a v* call on a path.
type Input struct {
	Name string  `json:"name"`
	Kind string  `json:"kind"` // bool, byte, int64, float64, choice, rune
	T    *term.T `json:"-"`
	V    uint64  `json:"v"` // concrete value (bits) under the path's model; for choice the index
}

type Obs struct {
	Label string `json:"label"`
	Value string `json:"value"` // rendered under the model
	terms []Value
}

type WorkItem struct {
	Prefix  []int32
	Model   term.Model
	Tainted bool
}

type Path struct {
	Prefix       []int32
	pos          int
	Decisions    []int32
	PC           []*term.T
	Model        term.Model
	ModelOK      bool
	Tainted      bool
	Steps        int64
	Allocs       int
	Inputs       []Input
	names        map[string]int
	Obs          []Obs
	Covers       []string
	ConcLimit    int
	Profile      bool
	Forks        int
	SymForks     int
	Assumed      int
	pcVars       map[string]*term.T
	bind         map[int]*term.T
	substMemo    map[int]*term.T
	pcSet        map[int]bool
	loops        map[*fnInfo]int64
	Notes        []string
	termVal      map[int]*term.T
	stackAtAbort []*fnInfo
}

func (p *Path) backEdge(fi *fnInfo) {
	if p.loops == nil {
		p.loops = map[*fnInfo]int64{}
	}
	p.loops[fi]++
}

// hottestLoop names the outermost repository function on the stack that has run many loop back-edges on this path.
func (p *Path) hottestLoop() string {
	best := ""
	for _, fi := range p.stackAtAbort { // outermost first
		if p.loops[fi] >= 200 && strings.Contains(fi.name, "textwire") && !strings.Contains(fi.name, "Harness") {
			best = fi.name
			break
		}
	}
	if best == "" {
		bestN := int64(-1)
		for fi, n := range p.loops {
			if !strings.Contains(fi.name, "textwire") {
				continue
			}
			if n > bestN || (n == bestN && fi.name < best) {
				best, bestN = fi.name, n
			}
		}
	}
	if best == "" {
		return "?"
	}
	if i := strings.LastIndex(best, "/"); i >= 0 {
		best = best[i+1:]
	}
	return strings.NewReplacer("(", "", ")", "", "*", "").Replace(best)
}

// Outcome of one explored path.
type PathResult struct {
	Outcome   string // ok, assume, panic, violation, unwind, unsupported, limit, infeasible
	Detail    string // assert id / panic kind
	Msg       string
	Pos       string
	Decisions []int32
	Inputs    []Input
	Obs       []Obs
	Covers    []string
	Steps     int64
	Forks     int
	SymForks  int
	HasModel  bool
	Tainted   bool
	Notes     []string
}

type Explorer struct {
	Cfg      *Config
	Entry    *ssa.Function
	Workers  int
	Seed     int64
	MaxPaths int64
	SampleN  int
	Deadline time.Time

	mu       sync.Mutex
	cond     *sync.Cond
	stack    []WorkItem
	active   int
	stop     bool
	Results  ExploreStats
	OnResult func(*PathResult)
}

type ExploreStats struct {
	Paths        int64
	ByOutcome    map[string]int64
	Forks        int64
	SymForks     int64
	Steps        int64
	MaxSteps     int64
	Queries      int64
	QSat         int64
	QUnsat       int64
	QUnknown     int64
	SolverTime   time.Duration
	Obligations  int64
	Discharged   int64
	Violations   map[string][]*PathResult // key -> first few
	ViolCount    map[string]int64
	Samples      []*PathResult // sampled ok paths (lowest hash)
	Inconclusive []string
	Covers       map[string]int64
	FnInstr      map[string]int64
	Truncated    bool
	TimedOut     bool
	Terms        int
	AssumedAway  int64
	SymPaths     int64
	Queries2     int64 // queries decided by the second solver (cvc5)
}

func (e *Explorer) push(items ...WorkItem) {
	e.mu.Lock()
	e.stack = append(e.stack, items...)
	e.mu.Unlock()
	e.cond.Broadcast()
}

func (e *Explorer) pop() (WorkItem, bool) {
	e.mu.Lock()
	defer e.mu.Unlock()
	for {
		if e.stop {
			return WorkItem{}, false
		}
		if n := len(e.stack); n > 0 {
			it := e.stack[n-1]
			e.stack = e.stack[:n-1]
			e.active++
			return it, true
		}
		if e.active == 0 {
			e.cond.Broadcast()
			return WorkItem{}, false
		}
		e.cond.Wait()
	}
}

func (e *Explorer) done() {
	e.mu.Lock()
	e.active--
	e.mu.Unlock()
	e.cond.Broadcast()
}

func pathHash(dec []int32, seed int64) uint64 {
	h := fnv.New64a()
	var b [4]byte
	fmt.Fprintf(h, "%d:", seed)
	for _, d := range dec {
		b[0], b[1], b[2], b[3] = byte(d), byte(d>>8), byte(d>>16), byte(d>>24)
		h.Write(b[:])
	}
	return h.Sum64()
}

// Run explores all paths of the entry function.
func (e *Explorer) Run() (*ExploreStats, error) {
	e.cond = sync.NewCond(&e.mu)
	e.Results = ExploreStats{ByOutcome: map[string]int64{}, Violations: map[string][]*PathResult{}, ViolCount: map[string]int64{}, Covers: map[string]int64{}, FnInstr: map[string]int64{}}
	e.stack = []WorkItem{{}}
	var wg sync.WaitGroup
	errs := make(chan error, e.Workers)
	type sample struct {
		h uint64
		r *PathResult
	}
	var samples []sample
	for w := 0; w < e.Workers; w++ {
		wg.Add(1)
		go func(w int) {
			defer wg.Done()
			in, err := NewInterp(e.Cfg)
			if err != nil {
				errs <- err
				e.mu.Lock()
				e.stop = true
				e.mu.Unlock()
				e.cond.Broadcast()
				return
			}
			defer func() {
				e.mu.Lock()
				s := in.solver
				e.Results.Queries += int64(s.Queries)
				e.Results.QSat += int64(s.NSat)
				e.Results.QUnsat += int64(s.NUnsat)
				e.Results.SolverTime += s.Time
				if s2 := in.solver2; s2 != nil {
					e.Results.Queries2 += int64(s2.Queries)
					e.Results.QSat += int64(s2.NSat)
					e.Results.QUnsat += int64(s2.NUnsat)
					e.Results.QUnknown += int64(s2.NUnk)
					e.Results.SolverTime += s2.Time
					// queries z3 could not decide were re-asked; count them once
					e.Results.Queries += int64(s2.Queries) - int64(s.NUnk)
				} else {
					e.Results.QUnknown += int64(s.NUnk)
				}
				e.Results.Terms += in.st.Size()
				e.Results.Obligations += in.obligations
				e.Results.Discharged += in.discharged
				for _, fi := range in.fninfo {
					if fi.steps > 0 {
						e.Results.FnInstr[fi.name] += fi.steps
					}
				}
				e.mu.Unlock()
				in.Close()
			}()
			for {
				item, ok := e.pop()
				if !ok {
					return
				}
				res, sibs, err := in.RunPath(e.Entry, item, e)
				if err != nil {
					errs <- err
					e.mu.Lock()
					e.stop = true
					e.mu.Unlock()
					e.cond.Broadcast()
					e.done()
					return
				}
				e.mu.Lock()
				e.stack = append(e.stack, sibs...)
				st := &e.Results
				st.Paths++
				st.ByOutcome[res.Outcome]++
				st.Forks += int64(res.Forks)
				st.SymForks += int64(res.SymForks)
				if res.SymForks > 0 {
					st.SymPaths++
				}
				st.Steps += res.Steps
				if res.Steps > st.MaxSteps {
					st.MaxSteps = res.Steps
				}
				for _, c := range res.Covers {
					st.Covers[c]++
				}
				switch res.Outcome {
				case "violation", "panic", "unwind":
					key := res.Outcome + ":" + res.Detail
					st.ViolCount[key]++
					// keep a diverse handful of witnesses per key (lowest path hashes), tried in turn at replay
					const keep = 12
					cur := st.Violations[key]
					if len(cur) < keep {
						st.Violations[key] = append(cur, res)
					} else {
						h := pathHash(res.Decisions, e.Seed)
						mi := 0
						for i := range cur {
							if pathHash(cur[i].Decisions, e.Seed) > pathHash(cur[mi].Decisions, e.Seed) {
								mi = i
							}
						}
						if h < pathHash(cur[mi].Decisions, e.Seed) {
							cur[mi] = res
						}
					}
				case "unsupported", "limit":
					if len(st.Inconclusive) < 20 {
						st.Inconclusive = append(st.Inconclusive, res.Outcome+": "+res.Msg)
					}
				case "ok":
					if e.SampleN > 0 && res.HasModel {
						h := pathHash(res.Decisions, e.Seed)
						if len(samples) < e.SampleN {
							samples = append(samples, sample{h, res})
						} else {
							// replace the max if smaller
							mi := 0
							for i := range samples {
								if samples[i].h > samples[mi].h {
									mi = i
								}
							}
							if h < samples[mi].h {
								samples[mi] = sample{h, res}
							}
						}
					}
				}
				if e.OnResult != nil {
					e.OnResult(res)
				}
				if e.MaxPaths > 0 && st.Paths >= e.MaxPaths {
					st.Truncated = true
					e.stop = true
				}
				if !e.Deadline.IsZero() && time.Now().After(e.Deadline) {
					st.TimedOut = true
					e.stop = true
				}
				e.mu.Unlock()
				e.done()
			}
		}(w)
	}
	wg.Wait()
	select {
	case err := <-errs:
		return &e.Results, err
	default:
	}
	sort.Slice(samples, func(i, j int) bool { return samples[i].h < samples[j].h })
	for _, s := range samples {
		e.Results.Samples = append(e.Results.Samples, s.r)
	}
	if len(e.stack) > 0 {
		e.Results.Truncated = true
	}
	return &e.Results, nil
}

// RunPath executes one path. It returns the result and the sibling work items discovered.
func (in *Interp) RunPath(entry *ssa.Function, item WorkItem, e *Explorer) (res *PathResult, sibs []WorkItem, err error) {
	p := &Path{Prefix: item.Prefix, Model: item.Model, ModelOK: item.Model != nil || len(item.Prefix) == 0, Tainted: item.Tainted,
		names: map[string]int{}, ConcLimit: 64, pcVars: map[string]*term.T{}, bind: map[int]*term.T{}, substMemo: map[int]*term.T{}, pcSet: map[int]bool{}, termVal: map[int]*term.T{}}
	if p.Model == nil {
		p.Model = term.Model{}
	}
	if item.Tainted {
		p.ModelOK = false
	}
	in.path = p
	in.sibs = in.sibs[:0]
	in.depth = 0
	in.cur = nil
	in.vfs = nil
	res = &PathResult{}
	// restart the solver now and then to bound its memory
	if in.solver.Defs() > 400000 {
		old := in.solver
		s, serr := smt.New(in.cfg.SolverKind, in.cfg.TimeoutMs)
		if serr != nil {
			return nil, nil, serr
		}
		s.Queries, s.NSat, s.NUnsat, s.NUnk, s.Time = old.Queries, old.NSat, old.NUnsat, old.NUnk, old.Time
		old.Close()
		in.solver = s
	}
	func() {
		defer func() {
			r := recover()
			if r == nil {
				return
			}
			switch r := r.(type) {
			case *targetPanic:
				res.Outcome = "panic"
				res.Detail = r.kind + "@" + firstField(r.pos)
				res.Msg = r.msg
				res.Pos = r.pos
			case *pathAbort:
				res.Outcome = r.kind
				res.Msg = r.msg
				if r.kind == "violation" {
					res.Detail = r.msg
				}
				if r.kind == "unwind" {
					res.Detail = "loop-in-" + p.hottestLoop()
				}
			default:
				err = fmt.Errorf("engine crash: %v\n%s\nat %s", r, debug.Stack(), in.posString()+" ["+in.stackString(8)+"]")
			}
		}()
		in.initAll()
		func() {
			defer func() {
				if r := recover(); r != nil {
					if tp, ok := r.(*targetPanic); ok && tp.kind == "test-goexit" {
						return // t.Fatal / t.Skip at the top level of a test function
					}
					panic(r)
				}
			}()
			in.callFunction(nil, entry, in.entryArgs(entry), nil)
		}()
		if len(in.pendingGo) > 0 {
			in.unsupported("goroutines that are never joined through sync.WaitGroup.Wait")
		}
		if in.testFailed {
			panic(&pathAbort{kind: "violation", msg: "test-failed: " + in.testMsg})
		}
		res.Outcome = "ok"
	}()
	if err != nil {
		return nil, nil, err
	}
	res.Decisions = p.Decisions
	res.Steps = p.Steps
	res.Forks = p.Forks
	res.SymForks = p.SymForks
	res.Covers = p.Covers
	res.Tainted = p.Tainted
	res.Notes = p.Notes
	// model for the inputs
	need := res.Outcome == "violation" || res.Outcome == "panic" || res.Outcome == "unwind" || (res.Outcome == "ok" && e != nil && e.SampleN > 0)
	if need {
		if !p.ModelOK {
			in.solveModel()
		}
		if p.ModelOK {
			res.HasModel = true
			memo := map[int]uint64{}
			for i := range p.Inputs {
				if p.Inputs[i].T != nil {
					p.Inputs[i].V = term.Eval(p.Inputs[i].T, p.Model, memo)
				}
			}
			for i := range p.Obs {
				p.Obs[i].Value = in.renderObs(p.Obs[i].terms, p.Model, memo)
			}
		}
	}
	res.Inputs = p.Inputs
	res.Obs = p.Obs
	sibs = append(sibs, in.sibs...)
	return res, sibs, nil
}

func firstField(s string) string {
	if i := strings.IndexByte(s, ' '); i >= 0 {
		return s[:i]
	}
	return s
}

// inputVars returns the variable terms of all inputs so far.
func (in *Interp) inputVars() []*term.T {
	p := in.path
	out := make([]*term.T, 0, len(p.Inputs))
	for _, i := range p.Inputs {
		if i.T != nil {
			out = append(out, i.T)
		}
	}
	return out
}

// addPC appends a constraint and learns variable bindings from equalities with constants.
func (in *Interp) addPC(c *term.T) {
	p := in.path
	if p.pcSet[c.ID] {
		return
	}
	p.pcSet[c.ID] = true
	p.PC = append(p.PC, c)
	learn := func(v, k *term.T) {
		if _, ok := p.bind[v.ID]; !ok {
			p.bind[v.ID] = k
			p.substMemo = map[int]*term.T{}
		}
	}
	switch c.Op {
	case term.OEq:
		a, b := c.Args[0], c.Args[1]
		if a.Op == term.OVar && b.IsConst() {
			learn(a, b)
		} else if b.Op == term.OVar && a.IsConst() {
			learn(b, a)
		} else if b.IsConst() {
			p.termVal[a.ID] = b
		} else if a.IsConst() {
			p.termVal[b.ID] = a
		}
	case term.OVar:
		learn(c, in.st.True)
	case term.ONot:
		if c.Args[0].Op == term.OVar {
			learn(c.Args[0], in.st.False)
		}
	}
}

// simplify substitutes variables whose value the path condition pins down.
func (in *Interp) simplify(c *term.T) *term.T {
	p := in.path
	if c.IsConst() {
		return c
	}
	if k, ok := p.termVal[c.ID]; ok {
		return k
	}
	if len(p.bind) == 0 {
		return c
	}
	r := in.st.Subst(c, p.bind, p.substMemo)
	if k, ok := p.termVal[r.ID]; ok {
		return k
	}
	return r
}

// sliceFor returns the constraints of the PC that (transitively) share variables with c, and those variables.
func (in *Interp) sliceFor(c *term.T) ([]*term.T, []*term.T) {
	return in.sliceForVars(c.Vars())
}

func (in *Interp) sliceForVars(seedVars []*term.T) ([]*term.T, []*term.T) {
	p := in.path
	want := map[int]bool{}
	var vars []*term.T
	for _, v := range seedVars {
		if !want[v.ID] {
			want[v.ID] = true
			vars = append(vars, v)
		}
	}
	used := make([]bool, len(p.PC))
	var out []*term.T
	for changed := true; changed; {
		changed = false
		for i, pc := range p.PC {
			if used[i] {
				continue
			}
			hit := false
			for _, v := range pc.Vars() {
				if want[v.ID] {
					hit = true
					break
				}
			}
			if !hit {
				continue
			}
			used[i] = true
			out = append(out, pc)
			for _, v := range pc.Vars() {
				if !want[v.ID] {
					want[v.ID] = true
					vars = append(vars, v)
					changed = true
				}
			}
		}
	}
	return out, vars
}

type qres struct {
	r smt.Result
	m term.Model
}

// query decides slice(PC, c) ∧ c with caching; on sat it returns a model of the slice variables.
func (in *Interp) query(c *term.T) (smt.Result, term.Model) {
	return in.queryWith(c, c)
}

// queryWith decides c on the slice of the PC that shares variables with seed or c.
func (in *Interp) queryWith(seed, c *term.T) (smt.Result, term.Model) {
	cs, vars := in.sliceFor(in.st.And(in.st.Eq(seed, seed), c))
	if seed != c {
		// slice on the variables of both terms
		cs, vars = in.sliceForVars(append(append([]*term.T{}, seed.Vars()...), c.Vars()...))
	}
	ids := make([]int, 0, len(cs)+1)
	for _, x := range cs {
		ids = append(ids, x.ID)
	}
	sort.Ints(ids)
	var kb strings.Builder
	for _, id := range ids {
		kb.WriteString(strconv.Itoa(id))
		kb.WriteByte(',')
	}
	kb.WriteByte('|')
	kb.WriteString(strconv.Itoa(c.ID))
	if seed != c {
		kb.WriteByte('/')
		kb.WriteString(strconv.Itoa(seed.ID))
	}
	key := kb.String()
	if in.qcache == nil {
		in.qcache = map[string]qres{}
	}
	if e, ok := in.qcache[key]; ok {
		in.cacheHits++
		return e.r, e.m
	}
	asserts := cs
	if !c.IsTrue() {
		asserts = append(asserts, c)
	}
	r, m := in.check(asserts, vars)
	if len(in.qcache) > 2000000 {
		in.qcache = map[string]qres{}
	}
	in.qcache[key] = qres{r, m}
	return r, m
}

// check runs the query on z3, or on cvc5 when it contains floating-point operations (z3 4.8.12 times out on
// 64-bit to_sbv/to_fp/roundToIntegral combinations that cvc5 decides in seconds) or when z3 answers unknown.
func (in *Interp) check(asserts []*term.T, vars []*term.T) (smt.Result, term.Model) {
	fp := false
	for _, a := range asserts {
		if a.HasFP {
			fp = true
			break
		}
	}
	if !fp {
		r, m, err := in.solver.Check(asserts, vars)
		if err != nil {
			in.solverTrouble(err)
		}
		if r != smt.Unknown {
			return r, m
		}
	}
	if in.solver2 == nil {
		s2, err := smt.New("cvc5", in.cfg.TimeoutMs)
		if err != nil {
			in.solverTrouble(err)
			return smt.Unknown, nil
		}
		in.solver2 = s2
	}
	r, m, err := in.solver2.Check(asserts, vars)
	if err != nil {
		in.solverTrouble(err)
	}
	return r, m
}

func mergeModel(base, over term.Model) term.Model {
	out := make(term.Model, len(base)+len(over))
	for k, v := range base {
		out[k] = v
	}
	for k, v := range over {
		out[k] = v
	}
	return out
}

// solveModel (re)computes a model of the whole current PC. Returns false if the PC is unsatisfiable.
func (in *Interp) solveModel() bool {
	p := in.path
	r, m := in.check(p.PC, in.inputVars())
	switch r {
	case smt.Sat:
		p.Model = m
		p.ModelOK = true
		return true
	case smt.Unsat:
		return false
	}
	p.Tainted = true
	p.ModelOK = false
	return true
}

func (in *Interp) solverTrouble(err error) {
	fmt.Fprintf(os.Stderr, "symgo: solver trouble: %v\n", err)
	in.path.Tainted = true
}

func (in *Interp) evalBool(c *term.T) bool {
	return term.Eval(c, in.path.Model, map[int]uint64{}) == 1
}

// branchVal forks on a bool-or-term value.
func (in *Interp) branchVal(v Value) bool {
	switch v := v.(type) {
	case bool:
		return v
	case *term.T:
		return in.branch(v)
	}
	panic(fmt.Sprintf("branchVal: %T", v))
}

// branch decides a symbolic condition on this path, registering the sibling if feasible.
func (in *Interp) branch(c *term.T) bool {
	c = in.simplify(c)
	if c.IsConst() {
		return c.C == 1
	}
	p := in.path
	st := in.st
	// facts already on the path condition need no decision
	if p.pcSet[c.ID] {
		return true
	}
	if p.pcSet[st.Not(c).ID] {
		return false
	}
	p.Forks++
	p.SymForks++
	if p.pos < len(p.Prefix) {
		d := p.Prefix[p.pos]
		p.pos++
		p.Decisions = append(p.Decisions, d)
		if d == 1 {
			in.addPC(c)
		} else {
			in.addPC(st.Not(c))
		}
		return d == 1
	}
	// frontier
	if !p.ModelOK && !p.Tainted {
		if !in.solveModel() {
			panic(&pathAbort{kind: "infeasible", msg: "pc unsat at frontier"})
		}
	}
	var b bool
	var otherFeasible smt.Result
	var otherModel term.Model
	if p.ModelOK {
		b = in.evalBool(c)
		other := c
		if b {
			other = st.Not(c)
		}
		r, m := in.query(other)
		otherFeasible = r
		if r == smt.Sat {
			otherModel = mergeModel(p.Model, m)
		}
	} else {
		rt, mt := in.query(c)
		rf, mf := in.query(st.Not(c))
		switch {
		case rt == smt.Unsat && rf == smt.Unsat:
			panic(&pathAbort{kind: "infeasible", msg: "both sides unsat"})
		case rt == smt.Unsat:
			b = false
			otherFeasible = smt.Unsat
		case rt == smt.Sat:
			b = true
			otherFeasible = rf
		default: // rt unknown
			b = true
			otherFeasible = rf
		}
		_, _ = mt, mf
	}
	nb := int32(1)
	if b {
		nb = 0
	}
	if otherFeasible != smt.Unsat {
		pre := make([]int32, len(p.Decisions)+1)
		copy(pre, p.Decisions)
		pre[len(p.Decisions)] = nb
		w := WorkItem{Prefix: pre}
		if otherFeasible == smt.Sat && otherModel != nil {
			w.Model = otherModel
			w.Tainted = p.Tainted
		} else if otherFeasible == smt.Sat {
			w.Tainted = p.Tainted // model recomputed at its frontier
		} else {
			w.Tainted = true
		}
		in.sibs = append(in.sibs, w)
	}
	p.Decisions = append(p.Decisions, 1-nb)
	p.Prefix = p.Decisions
	p.pos = len(p.Decisions)
	if b {
		in.addPC(c)
	} else {
		in.addPC(st.Not(c))
	}
	return b
}

// choice is an n-way concrete fork.
func (in *Interp) choice(n int, label string) int {
	if n <= 1 {
		return 0
	}
	p := in.path
	p.Forks++
	if p.pos < len(p.Prefix) {
		d := p.Prefix[p.pos]
		p.pos++
		p.Decisions = append(p.Decisions, d)
		return int(d)
	}
	for alt := n - 1; alt >= 1; alt-- {
		pre := make([]int32, len(p.Decisions)+1)
		copy(pre, p.Decisions)
		pre[len(p.Decisions)] = int32(alt)
		w := WorkItem{Prefix: pre, Tainted: p.Tainted}
		if p.ModelOK {
			w.Model = p.Model
		}
		in.sibs = append(in.sibs, w)
	}
	p.Decisions = append(p.Decisions, 0)
	p.Prefix = p.Decisions
	p.pos = len(p.Decisions)
	return 0
}

// assumeTerm adds c to the path condition; the path is dropped if that makes it infeasible.
func (in *Interp) assumeTerm(c *term.T) {
	c = in.simplify(c)
	if c.IsTrue() {
		return
	}
	p := in.path
	if c.IsFalse() {
		panic(&pathAbort{kind: "assume", msg: "assumption false"})
	}
	if p.pos < len(p.Prefix) {
		in.addPC(c)
		return // replaying: already known feasible
	}
	if p.ModelOK && in.evalBool(c) {
		in.addPC(c)
		return
	}
	r, m := in.query(c)
	switch r {
	case smt.Unsat:
		panic(&pathAbort{kind: "assume", msg: "assumption infeasible"})
	case smt.Sat:
		if p.ModelOK {
			p.Model = mergeModel(p.Model, m)
		}
	default:
		p.Tainted = true
		p.ModelOK = false
	}
	in.addPC(c)
}

// assert discharges an obligation: pc ∧ ¬c must be unsat.
func (in *Interp) assert(v Value, id string) {
	p := in.path
	frontier := p.pos >= len(p.Prefix)
	if frontier {
		in.obligations++
	}
	switch v := v.(type) {
	case bool:
		if v {
			if frontier {
				in.discharged++
			}
			return
		}
		panic(&pathAbort{kind: "violation", msg: id})
	case *term.T:
		c := in.simplify(v)
		if c.IsTrue() {
			if frontier {
				in.discharged++
			}
			return
		}
		if c.IsFalse() {
			panic(&pathAbort{kind: "violation", msg: id})
		}
		if !frontier {
			// replaying: this obligation was discharged by the path that created this prefix
			in.addPC(c)
			return
		}
		r, m := in.query(in.st.Not(c))
		switch r {
		case smt.Unsat:
			in.discharged++
			in.addPC(c)
			return
		case smt.Sat:
			in.addPC(in.st.Not(c))
			if p.ModelOK {
				p.Model = mergeModel(p.Model, m)
			} else {
				in.solveModel()
			}
			panic(&pathAbort{kind: "violation", msg: id})
		default:
			p.Tainted = true
			panic(&pathAbort{kind: "unsupported", msg: "solver unknown on assertion " + id})
		}
	default:
		panic(fmt.Sprintf("assert: %T", v))
	}
}

// newInput creates a fresh symbolic input.
func (in *Interp) newInput(name, kind string, sort term.Sort) *term.T {
	p := in.path
	k := p.names[name]
	p.names[name] = k + 1
	full := name
	if k > 0 {
		full = fmt.Sprintf("%s#%d", name, k)
	}
	t := in.st.Var(full+":"+kind, sort)
	p.Inputs = append(p.Inputs, Input{Name: full, Kind: kind, T: t})
	return t
}

func (in *Interp) renderObs(vals []Value, m term.Model, memo map[int]uint64) string {
	var sb strings.Builder
	for i, v := range vals {
		if i > 0 {
			sb.WriteByte('|')
		}
		sb.WriteString(in.renderVal(v, m, memo))
	}
	return sb.String()
}

func (in *Interp) renderVal(v Value, m term.Model, memo map[int]uint64) string {
	switch v := v.(type) {
	case string:
		return v
	case *SymStr:
		bs := make([]byte, len(v.B))
		for i, c := range v.B {
			switch c := c.(type) {
			case int64:
				bs[i] = byte(c)
			case *term.T:
				bs[i] = byte(term.Eval(c, m, memo))
			}
		}
		return string(bs)
	case int64:
		return fmt.Sprint(v)
	case bool:
		return fmt.Sprint(v)
	case float64:
		return fmt.Sprint(math.Float64bits(v))
	case *term.T:
		x := term.Eval(v, m, memo)
		switch v.Sort.K {
		case term.KBool:
			return fmt.Sprint(x == 1)
		case term.KBV:
			return fmt.Sprint(int64(x)) // callers observe int64
		default:
			return fmt.Sprint(x)
		}
	}
	return fmt.Sprintf("<%T>", v)
}
