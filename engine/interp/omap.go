package interp

import (
	"fmt"
	"go/types"
	"sort"
	"strings"

	"symgo/term"
)

// Map is an insertion-ordered association list with an index for fully concrete keys.
// Keys that contain symbolic parts are found by linear scan with forking equality.
type Map struct {
	keys  []Value
	vals  []Value
	dead  []bool
	idx   map[interface{}]int
	nlive int
	nsym  int // live symbolic keys
	tKey  types.Type
	id    int
}

func newMap(tKey types.Type) *Map {
	return &Map{idx: map[interface{}]int{}, tKey: tKey}
}

func (m *Map) Len() int {
	if m == nil {
		return 0
	}
	return m.nlive
}

type ifaceKey struct {
	t string
	k interface{}
}

// concreteKey returns a Go-comparable canonical key, or ok=false if v has symbolic parts.
func concreteKey(v Value) (interface{}, bool) {
	switch v := v.(type) {
	case bool, int64, float64, complex128, string:
		return v, true
	case *Value:
		return v, true
	case *chanVal:
		return v, true
	case *term.T, *SymStr:
		return nil, false
	case Iface:
		if v.T == nil {
			return ifaceKey{}, true
		}
		k, ok := concreteKey(v.V)
		if !ok {
			return nil, false
		}
		return ifaceKey{v.T.String(), k}, true
	case RType:
		return ifaceKey{"rtype", v.T.String()}, true
	case Struct:
		var sb strings.Builder
		sb.WriteString("S{")
		for _, f := range v {
			k, ok := concreteKey(f)
			if !ok {
				return nil, false
			}
			fmt.Fprintf(&sb, "%T:%v;", k, k)
		}
		return sb.String(), true
	case Array:
		var sb strings.Builder
		sb.WriteString("A{")
		for _, f := range v {
			k, ok := concreteKey(f)
			if !ok {
				return nil, false
			}
			fmt.Fprintf(&sb, "%T:%v;", k, k)
		}
		return sb.String(), true
	}
	panic(fmt.Sprintf("concreteKey: %T", v))
}

// find returns the position of key, forking on symbolic equalities. -1 if absent.
func (in *Interp) mapFind(m *Map, key Value) int {
	if m == nil {
		return -1
	}
	if in.frozenMaps != nil {
		in.noteMapRead(m)
	}
	ck, conc := concreteKey(key)
	if conc {
		if i, ok := m.idx[ck]; ok {
			return i
		}
		if m.nsym == 0 {
			return -1
		}
		// compare against symbolic keys only
		for i, k := range m.keys {
			if m.dead[i] {
				continue
			}
			if _, c := concreteKey(k); c {
				continue
			}
			if in.branchVal(in.equals(m.tKey, k, key)) {
				return i
			}
		}
		return -1
	}
	for i, k := range m.keys {
		if m.dead[i] {
			continue
		}
		if in.branchVal(in.equals(m.tKey, k, key)) {
			return i
		}
	}
	return -1
}

func (in *Interp) mapLookup(m *Map, key Value) (Value, bool) {
	i := in.mapFind(m, key)
	if i < 0 {
		return nil, false
	}
	return m.vals[i], true
}

func (in *Interp) mapUpdate(m *Map, key, val Value) {
	if m == nil {
		in.throwRuntime("assignment to entry in nil map")
	}
	in.noteMapWrite(m)
	i := in.mapFind(m, key)
	if i >= 0 {
		m.vals[i] = val
		return
	}
	m.keys = append(m.keys, key)
	m.vals = append(m.vals, val)
	m.dead = append(m.dead, false)
	m.nlive++
	if ck, ok := concreteKey(key); ok {
		m.idx[ck] = len(m.keys) - 1
	} else {
		m.nsym++
	}
}

func (in *Interp) mapDelete(m *Map, key Value) {
	if m == nil {
		return
	}
	i := in.mapFind(m, key)
	if i < 0 {
		return
	}
	in.noteMapWrite(m)
	m.dead[i] = true
	m.nlive--
	if ck, ok := concreteKey(m.keys[i]); ok {
		delete(m.idx, ck)
	} else {
		m.nsym--
	}
}

// mapIter iterates over a snapshot of positions.
type mapIter struct {
	m     *Map
	order []int
	pos   int
	all   bool // nondeterministic order (C14 mode)
}

func (in *Interp) newMapIter(m *Map) *mapIter {
	it := &mapIter{m: m}
	if m == nil {
		return it
	}
	for i := range m.keys {
		if !m.dead[i] {
			it.order = append(it.order, i)
		}
	}
	switch in.MapOrder {
	case "all":
		// every order is explored for maps of up to 4 live keys; larger maps (the 16-entry directive table that the
		// lexer ranges over to find the longest keyword) iterate in insertion order - stated bound of C14
		if len(it.order) <= 4 {
			it.all = true
		}
	case "reverse":
		for i, j := 0, len(it.order)-1; i < j; i, j = i+1, j-1 {
			it.order[i], it.order[j] = it.order[j], it.order[i]
		}
	case "sorted":
		// sort by concrete key where possible (strings / ints), stable otherwise
		sort.SliceStable(it.order, func(a, b int) bool {
			ka, kb := m.keys[it.order[a]], m.keys[it.order[b]]
			switch x := ka.(type) {
			case string:
				if y, ok := kb.(string); ok {
					return x < y
				}
			case int64:
				if y, ok := kb.(int64); ok {
					return x < y
				}
			}
			return false
		})
	}
	return it
}

func (in *Interp) mapNext(it *mapIter) Tuple {
	for {
		remaining := it.order[it.pos:]
		// drop entries deleted meanwhile
		live := remaining[:0:0]
		for _, i := range remaining {
			if !it.m.dead[i] {
				live = append(live, i)
			}
		}
		if len(live) == 0 {
			it.pos = len(it.order)
			return Tuple{false, nil, nil}
		}
		if it.all && len(live) > 1 {
			c := in.choice(len(live), "maporder")
			// move chosen to front
			chosen := live[c]
			rest := make([]int, 0, len(live)-1)
			rest = append(rest, live[:c]...)
			rest = append(rest, live[c+1:]...)
			it.order = append([]int{chosen}, rest...)
			it.pos = 1
			return Tuple{true, it.m.keys[chosen], it.m.vals[chosen]}
		}
		it.order = live
		it.pos = 1
		i := live[0]
		return Tuple{true, it.m.keys[i], it.m.vals[i]}
	}
}
