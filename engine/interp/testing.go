package interp

import (
	"go/types"

	"golang.org/x/tools/go/ssa"
)

// A model of *testing.T sufficient for the repository's tests (translator validation, `symgo validate`): Errorf and
// Error mark the test failed and go on, Fatalf / Fatal / FailNow mark it failed and unwind to the enclosing test or
// subtest running deferred calls on the way (as runtime.Goexit does), Skip unwinds without failing, Run calls the
// subtest inline. A test that ends failed is reported as a violation of the harness "test passes".

func (in *Interp) testMessage(format Value, args []Value, withFormat bool) (msg string) {
	defer func() {
		if r := recover(); r != nil {
			if pa, ok := r.(*pathAbort); ok && pa.kind == "unsupported" {
				msg = "<message not formatted: " + pa.msg + ">"
				return
			}
			panic(r)
		}
	}()
	var v Value
	if withFormat {
		v = in.sprintf(format, args)
	} else {
		var out Value = ""
		for i, a := range args {
			if i > 0 {
				out = strConcat(out, " ")
			}
			out = strConcat(out, in.formatV(a.(Iface), 'v'))
		}
		v = out
	}
	if s, ok := v.(string); ok {
		return s
	}
	return "<symbolic message>"
}

func (in *Interp) testFail(msg string) {
	if !in.testFailed {
		in.testMsg = msg
	}
	in.testFailed = true
}

func variadic(v Value) []Value {
	if xs, ok := v.([]Value); ok {
		return xs
	}
	return nil
}

func init() {
	reg := func(name string, f func(in *Interp, caller *frame, fn *ssa.Function, args []Value) Value) {
		intrinsics["(*testing.common)."+name] = f
		intrinsics["(*testing.T)."+name] = f
	}
	goexit := func(in *Interp, kind string) {
		panic(&targetPanic{kind: kind, msg: kind, pos: in.posString(), v: Iface{T: types.Typ[types.String], V: kind}})
	}
	reg("Errorf", func(in *Interp, caller *frame, fn *ssa.Function, args []Value) Value {
		in.testFail(in.testMessage(args[1], variadic(args[2]), true))
		return nil
	})
	reg("Error", func(in *Interp, caller *frame, fn *ssa.Function, args []Value) Value {
		in.testFail(in.testMessage(nil, variadic(args[1]), false))
		return nil
	})
	reg("Fatalf", func(in *Interp, caller *frame, fn *ssa.Function, args []Value) Value {
		in.testFail(in.testMessage(args[1], variadic(args[2]), true))
		goexit(in, "test-goexit")
		return nil
	})
	reg("Fatal", func(in *Interp, caller *frame, fn *ssa.Function, args []Value) Value {
		in.testFail(in.testMessage(nil, variadic(args[1]), false))
		goexit(in, "test-goexit")
		return nil
	})
	reg("FailNow", func(in *Interp, caller *frame, fn *ssa.Function, args []Value) Value {
		in.testFail("FailNow")
		goexit(in, "test-goexit")
		return nil
	})
	reg("Fail", func(in *Interp, caller *frame, fn *ssa.Function, args []Value) Value {
		in.testFail("Fail")
		return nil
	})
	reg("Failed", func(in *Interp, caller *frame, fn *ssa.Function, args []Value) Value { return in.testFailed })
	for _, n := range []string{"Skip", "Skipf", "SkipNow"} {
		reg(n, func(in *Interp, caller *frame, fn *ssa.Function, args []Value) Value {
			in.path.Covers = append(in.path.Covers, "test-skipped")
			goexit(in, "test-goexit")
			return nil
		})
	}
	for _, n := range []string{"Helper", "Log", "Logf", "Parallel", "Cleanup", "Setenv"} {
		reg(n, func(in *Interp, caller *frame, fn *ssa.Function, args []Value) Value { return nil })
	}
	reg("Name", func(in *Interp, caller *frame, fn *ssa.Function, args []Value) Value { return "test" })
	intrinsics["(*testing.T).Run"] = func(in *Interp, caller *frame, fn *ssa.Function, args []Value) Value {
		in.path.Covers = append(in.path.Covers, "subtest-run")
		before := in.testFailed
		in.testFailed = false
		savedCur, savedDepth := in.cur, in.depth
		func() {
			defer func() {
				if r := recover(); r != nil {
					if tp, ok := r.(*targetPanic); ok && tp.kind == "test-goexit" {
						in.cur, in.depth = savedCur, savedDepth
						return
					}
					panic(r)
				}
			}()
			in.call(caller, args[2], []Value{args[0]})
		}()
		ok := !in.testFailed
		in.testFailed = in.testFailed || before
		return ok
	}
}

// entryArgs: a test function gets a zeroed testing.T.
func (in *Interp) entryArgs(entry *ssa.Function) []Value {
	if entry.Signature.Params().Len() != 1 {
		return nil
	}
	pt, ok := entry.Signature.Params().At(0).Type().(*types.Pointer)
	if !ok || pt.String() != "*testing.T" {
		return nil
	}
	cell := zero(pt.Elem())
	return []Value{&cell}
}
