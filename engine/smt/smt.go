// Package smt drives an SMT solver (z3 / cvc5) over a pipe with SMT-LIB2 text.
package smt

import (
	"bufio"
	"fmt"
	"io"
	"os/exec"
	"strconv"
	"strings"
	"time"

	"symgo/term"
)

type Result int

const (
	Unsat Result = iota
	Sat
	Unknown
)

func (r Result) String() string {
	return [...]string{"unsat", "sat", "unknown"}[r]
}

type Solver struct {
	Name    string
	cmd     *exec.Cmd
	in      io.WriteCloser
	out     *bufio.Reader
	epoch   int
	decl    map[string]bool
	defined map[int]bool
	buf     strings.Builder
	Queries int
	NSat    int
	NUnsat  int
	NUnk    int
	Time    time.Duration
	timeout int // ms
	defs    int
	Log     io.Writer
}

var epochCounter = 0

// New starts a solver. kind: "z3", "z3-new", "cvc5".
func New(kind string, timeoutMs int) (*Solver, error) {
	var cmd *exec.Cmd
	switch kind {
	case "z3":
		cmd = exec.Command("/usr/bin/z3", "-in", "-smt2")
	case "z3-new":
		cmd = exec.Command("z3-new", "-in", "-smt2")
	case "cvc5":
		cmd = exec.Command("cvc5", "--incremental", "--lang=smt2", "--produce-models", fmt.Sprintf("--tlimit-per=%d", timeoutMs))
	default:
		return nil, fmt.Errorf("unknown solver %q", kind)
	}
	in, err := cmd.StdinPipe()
	if err != nil {
		return nil, err
	}
	out, err := cmd.StdoutPipe()
	if err != nil {
		return nil, err
	}
	cmd.Stderr = nil
	if err := cmd.Start(); err != nil {
		return nil, err
	}
	epochCounter++
	s := &Solver{Name: kind, cmd: cmd, in: in, out: bufio.NewReaderSize(out, 1<<16), epoch: epochCounter, decl: map[string]bool{}, defined: map[int]bool{}, timeout: timeoutMs}
	if kind == "cvc5" {
		s.send("(set-logic ALL)\n")
	} else {
		s.send(fmt.Sprintf("(set-option :timeout %d)\n", timeoutMs))
	}
	s.send("(set-option :produce-models true)\n")
	return s, nil
}

func (s *Solver) Close() {
	if s.cmd != nil {
		s.in.Close()
		s.cmd.Process.Kill()
		s.cmd.Wait()
		s.cmd = nil
	}
}

func (s *Solver) send(str string) {
	if s.Log != nil {
		io.WriteString(s.Log, str)
	}
	io.WriteString(s.in, str)
}

// define emits declarations/definitions needed for t (iteratively, children first).
func (s *Solver) define(t *term.T, sb *strings.Builder) {
	if t.Op == term.OConst {
		return
	}
	if t.Op == term.OVar {
		if !s.decl[t.Name] {
			s.decl[t.Name] = true
			fmt.Fprintf(sb, "(declare-const %s %s)\n", term.VarSMTName(t.Name), t.VarDeclSort())
		}
		return
	}
	if s.defined[t.ID] {
		return
	}
	// iterative post-order
	type fr struct {
		t *term.T
		i int
	}
	stack := []fr{{t, 0}}
	for len(stack) > 0 {
		top := &stack[len(stack)-1]
		if top.i < len(top.t.Args) {
			a := top.t.Args[top.i]
			top.i++
			if a.Op == term.OConst {
				continue
			}
			if a.Op == term.OVar {
				if !s.decl[a.Name] {
					s.decl[a.Name] = true
					fmt.Fprintf(sb, "(declare-const %s %s)\n", term.VarSMTName(a.Name), a.VarDeclSort())
				}
				continue
			}
			if !s.defined[a.ID] {
				stack = append(stack, fr{a, 0})
			}
			continue
		}
		x := top.t
		stack = stack[:len(stack)-1]
		if s.defined[x.ID] {
			continue
		}
		s.defined[x.ID] = true
		s.defs++
		fmt.Fprintf(sb, "(define-fun %s () %s %s)\n", x.Ref(), x.Sort.String(), x.Body())
	}
}

// Check decides the conjunction of asserts. If sat and vars != nil, the model for vars is returned.
func (s *Solver) Check(asserts []*term.T, vars []*term.T) (Result, term.Model, error) {
	start := time.Now()
	defer func() { s.Time += time.Since(start) }()
	s.Queries++
	var sb strings.Builder
	for _, a := range asserts {
		s.define(a, &sb)
	}
	for _, v := range vars {
		s.define(v, &sb)
	}
	sb.WriteString("(push 1)\n")
	for _, a := range asserts {
		sb.WriteString("(assert ")
		sb.WriteString(a.Ref())
		sb.WriteString(")\n")
	}
	sb.WriteString("(check-sat)\n")
	s.send(sb.String())
	line, err := s.readLine()
	if err != nil {
		return Unknown, nil, err
	}
	var res Result
	switch line {
	case "sat":
		res = Sat
		s.NSat++
	case "unsat":
		res = Unsat
		s.NUnsat++
	case "unknown", "timeout":
		res = Unknown
		s.NUnk++
	default:
		// error or unexpected: treat as inconclusive; try to resync
		s.NUnk++
		s.send("(pop 1)\n")
		return Unknown, nil, fmt.Errorf("solver said: %s", line)
	}
	var model term.Model
	if res == Sat && len(vars) > 0 {
		var q strings.Builder
		q.WriteString("(get-value (")
		for _, v := range vars {
			q.WriteString(term.VarSMTName(v.Name))
			q.WriteByte(' ')
		}
		q.WriteString("))\n")
		s.send(q.String())
		txt, err := s.readSexp()
		if err != nil {
			return Unknown, nil, err
		}
		model, err = parseModel(txt)
		if err != nil {
			return Unknown, nil, fmt.Errorf("model parse: %v in %q", err, txt)
		}
	}
	s.send("(pop 1)\n")
	return res, model, nil
}

func (s *Solver) readLine() (string, error) {
	for {
		line, err := s.out.ReadString('\n')
		if err != nil {
			return "", err
		}
		line = strings.TrimSpace(line)
		if line == "" {
			continue
		}
		if strings.HasPrefix(line, "(error") {
			return line, nil
		}
		return line, nil
	}
}

// readSexp reads one balanced s-expression from the solver.
func (s *Solver) readSexp() (string, error) {
	var sb strings.Builder
	depth := 0
	started := false
	inBar := false
	for {
		c, err := s.out.ReadByte()
		if err != nil {
			return "", err
		}
		sb.WriteByte(c)
		if inBar {
			if c == '|' {
				inBar = false
			}
			continue
		}
		switch c {
		case '|':
			inBar = true
		case '(':
			depth++
			started = true
		case ')':
			depth--
			if started && depth == 0 {
				return sb.String(), nil
			}
		}
	}
}

// parseModel parses ((|name| value) ...) where values are #x.., #b.., true, false, or (_ bvN w).
func parseModel(txt string) (term.Model, error) {
	m := term.Model{}
	i := 0
	n := len(txt)
	skip := func() {
		for i < n && (txt[i] == ' ' || txt[i] == '\n' || txt[i] == '\t' || txt[i] == '\r') {
			i++
		}
	}
	skip()
	if i >= n || txt[i] != '(' {
		return nil, fmt.Errorf("expected (")
	}
	i++
	for {
		skip()
		if i >= n {
			return nil, fmt.Errorf("eof")
		}
		if txt[i] == ')' {
			return m, nil
		}
		if txt[i] != '(' {
			return nil, fmt.Errorf("expected ( at %d", i)
		}
		i++
		skip()
		var name string
		if txt[i] == '|' {
			j := strings.IndexByte(txt[i+1:], '|')
			name = txt[i+1 : i+1+j]
			i = i + 1 + j + 1
		} else {
			j := i
			for j < n && txt[j] != ' ' && txt[j] != ')' {
				j++
			}
			name = txt[i:j]
			i = j
		}
		skip()
		var val uint64
		switch {
		case strings.HasPrefix(txt[i:], "#x"):
			j := i + 2
			for j < n && isHex(txt[j]) {
				j++
			}
			v, err := strconv.ParseUint(txt[i+2:j], 16, 64)
			if err != nil {
				return nil, err
			}
			val = v
			i = j
		case strings.HasPrefix(txt[i:], "#b"):
			j := i + 2
			for j < n && (txt[j] == '0' || txt[j] == '1') {
				j++
			}
			v, err := strconv.ParseUint(txt[i+2:j], 2, 64)
			if err != nil {
				return nil, err
			}
			val = v
			i = j
		case strings.HasPrefix(txt[i:], "true"):
			val = 1
			i += 4
		case strings.HasPrefix(txt[i:], "false"):
			val = 0
			i += 5
		case strings.HasPrefix(txt[i:], "(_ bv"):
			j := i + 5
			k := j
			for k < n && txt[k] >= '0' && txt[k] <= '9' {
				k++
			}
			v, err := strconv.ParseUint(txt[j:k], 10, 64)
			if err != nil {
				return nil, err
			}
			val = v
			for k < n && txt[k] != ')' {
				k++
			}
			i = k + 1
		default:
			return nil, fmt.Errorf("unexpected value at %d: %.20s", i, txt[i:])
		}
		m[name] = val
		skip()
		if i >= n || txt[i] != ')' {
			return nil, fmt.Errorf("expected ) at %d", i)
		}
		i++
	}
}

func isHex(c byte) bool {
	return (c >= '0' && c <= '9') || (c >= 'a' && c <= 'f') || (c >= 'A' && c <= 'F')
}

// Defs returns the number of definitions sent so far (used to decide on restarts).
func (s *Solver) Defs() int { return s.defs }
