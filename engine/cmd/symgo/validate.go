package main

// symgo validate: translator validation. The repository's own test functions are executed by the symbolic
// interpreter (every value in them is concrete, so each test is one path unless the library ranges over a map) and
// the verdict of every test is compared with the verdict `go test` gives natively. A test the interpreter cannot run
// (a library function without a model) is reported as unsupported, never as passed.

import (
	"crypto/sha256"
	"encoding/hex"
	"encoding/json"
	"flag"
	"fmt"
	"go/types"
	"os"
	"os/exec"
	"path/filepath"
	"runtime"
	"sort"
	"strings"
	"syscall"
	"time"

	"golang.org/x/tools/go/packages"
	"golang.org/x/tools/go/ssa"
	"golang.org/x/tools/go/ssa/ssautil"

	"symgo/interp"
)

type validateTest struct {
	Pkg     string  `json:"package"`
	Name    string  `json:"test"`
	Engine  string  `json:"engine"` // pass | fail | unsupported | <other outcome>
	Native  string  `json:"native"` // pass | fail | skip | absent
	Paths   int64   `json:"paths"`
	Steps   int64   `json:"steps"`
	Detail  string  `json:"detail,omitempty"`
	Agrees  bool    `json:"agrees"`
	Subs    int     `json:"subtests_run"`
	WallSec float64 `json:"wall_s"`
}

// selfTest: one concrete harness over library functions that the engine models (harness/overlay/root/selftest.go),
// run by the engine and natively.
type selfTest struct {
	Name   string `json:"harness"`
	Passed bool   `json:"engine_and_native_pass"`
	Detail string `json:"detail,omitempty"`
}

type validateReport struct {
	Repo        string         `json:"repo"`
	Commit      string         `json:"repo_commit"`
	TreeID      string         `json:"repo_tree_id"`
	When        string         `json:"when"`
	Tests       []validateTest `json:"tests"`
	Agree       int            `json:"agree"`
	Disagree    int            `json:"disagree"`
	Unsupported int            `json:"unsupported"`
	SelfTests   []selfTest     `json:"engine_self_tests"`
	Total       int            `json:"total"`
	WallSec     float64        `json:"wall_s"`
}

// nativeVerdicts runs go test -json once and returns pkg::Test -> pass|fail|skip for top-level tests.
func nativeVerdicts(repo string) (map[string]string, error) {
	cmd := exec.Command("go", "test", "-vet=off", "-count=1", "-json", "./...")
	cmd.Dir = repo
	cmd.Env = goEnv()
	out, _ := cmd.Output()
	res := map[string]string{}
	for _, line := range strings.Split(string(out), "\n") {
		if line == "" {
			continue
		}
		var ev struct {
			Action, Package, Test string
		}
		if json.Unmarshal([]byte(line), &ev) != nil || ev.Test == "" || strings.Contains(ev.Test, "/") {
			continue
		}
		switch ev.Action {
		case "pass", "fail", "skip":
			res[ev.Package+"::"+ev.Test] = ev.Action
		}
	}
	if len(res) == 0 {
		return nil, fmt.Errorf("go test -json produced no verdicts")
	}
	return res, nil
}

func cmdValidate(args []string) int {
	fs := flag.NewFlagSet("validate", flag.ExitOnError)
	repo := fs.String("repo", "/repo", "repository")
	out := fs.String("out", "", "report file (default <verif>/validation/translator_validation.json)")
	only := fs.String("run", "", "substring filter on pkg::Test")
	budget := fs.Int64("budget", 20000000, "step budget per test")
	verbose := fs.Bool("v", false, "print every test")
	fs.Parse(args)
	start := time.Now()
	vd := verifDir()
	native, err := nativeVerdicts(*repo)
	if err != nil {
		fmt.Fprintln(os.Stderr, "error:", err)
		return 2
	}
	// overlay: only the virtual-file-system types the engine's os/filepath model needs in the root package
	ov := map[string][]byte{}
	if data, err := os.ReadFile(filepath.Join(vd, "harness", "overlay", "root", "vfs_types.go")); err == nil {
		ov[filepath.Join(*repo, "zz_verif_vfs_types.go")] = data
	}
	cfg := &packages.Config{Mode: packages.LoadAllSyntax, Dir: *repo, Env: goEnv(), BuildFlags: []string{"-tags=verif"}, Overlay: ov, Tests: true}
	pkgs, err := packages.Load(cfg, "./...")
	if err != nil {
		fmt.Fprintln(os.Stderr, "error:", err)
		return 2
	}
	prog, _ := ssautil.AllPackages(pkgs, ssa.InstantiateGenerics)
	rep := validateReport{Repo: *repo, When: time.Now().UTC().Format(time.RFC3339), TreeID: repoTreeID(*repo)}
	if c, err := exec.Command("git", "-C", *repo, "rev-parse", "HEAD").Output(); err == nil {
		rep.Commit = strings.TrimSpace(string(c))
	}
	sort.Slice(pkgs, func(i, j int) bool { return pkgs[i].ID < pkgs[j].ID })
	for _, p := range pkgs {
		// the test variant of a repository package: ID "path [path.test]"
		if !strings.Contains(p.ID, " [") || strings.HasSuffix(p.PkgPath, ".test") || !strings.HasPrefix(p.PkgPath, repoModule) {
			continue
		}
		if strings.Contains(p.PkgPath, "/lsp") || strings.Contains(p.PkgPath, "/repl") {
			continue // editor tooling, not the library under verification
		}
		sp := prog.Package(p.Types)
		if sp == nil {
			continue
		}
		// dependency order from this variant
		seen := map[*types.Package]bool{}
		var order []*types.Package
		var visit func(tp *types.Package)
		visit = func(tp *types.Package) {
			if seen[tp] {
				return
			}
			seen[tp] = true
			imps := tp.Imports()
			sort.Slice(imps, func(i, j int) bool { return imps[i].Path() < imps[j].Path() })
			for _, q := range imps {
				visit(q)
			}
			order = append(order, tp)
		}
		visit(p.Types)
		var repoPkgs, stdPkgs []*ssa.Package
		embeds := map[string]string{}
		for _, tp := range order {
			q := prog.Package(tp)
			if q == nil {
				continue
			}
			if strings.HasPrefix(tp.Path(), repoModule) {
				q.Build()
				repoPkgs = append(repoPkgs, q)
			} else if stdInit[tp.Path()] {
				q.Build()
				stdPkgs = append(stdPkgs, q)
			}
		}
		// go:embed values of repository packages (same rule as load())
		l0 := &loaded{embeds: embeds}
		collectEmbeds(l0, pkgs)
		icfg := &interp.Config{Prog: prog, RepoPkgs: repoPkgs, StdInitPkgs: stdPkgs, Redirects: map[string]*ssa.Function{},
			StepBudget: *budget, DepthBudget: 400, SolverKind: "z3", TimeoutMs: 60000, Embeds: embeds}
		// the root package (possibly this very variant) declares the vfs types
		for _, q := range repoPkgs {
			if q.Pkg.Path() == repoModule {
				if t := q.Type("vfsErr"); t != nil {
					icfg.VfsErrType = t.Type()
				}
				if t := q.Type("vfsFileInfo"); t != nil {
					icfg.FileInfoType = t.Type()
				}
			}
		}
		// tests read real files below their package directory: mirror it into the virtual file system
		rel := strings.TrimPrefix(strings.TrimPrefix(p.PkgPath, repoModule), "/")
		pkgDir := filepath.Join(*repo, rel)
		icfg.VfsCwd = pkgDir
		icfg.VfsFiles = map[string]string{}
		filepath.Walk(pkgDir, func(fp string, info os.FileInfo, err error) error {
			if err != nil || info.IsDir() {
				return nil
			}
			if info.Size() < 1<<20 && !strings.HasSuffix(fp, ".go") {
				if data, err := os.ReadFile(fp); err == nil {
					icfg.VfsFiles[fp] = string(data)
				}
			}
			return nil
		})
		var names []string
		for name, m := range sp.Members {
			if f, ok := m.(*ssa.Function); ok && strings.HasPrefix(name, "Test") && f.Signature.Params().Len() == 1 &&
				f.Signature.Params().At(0).Type().String() == "*testing.T" {
				names = append(names, name)
			}
		}
		sort.Strings(names)
		for _, name := range names {
			key := p.PkgPath + "::" + name
			if *only != "" && !strings.Contains(key, *only) {
				continue
			}
			t0 := time.Now()
			vt := validateTest{Pkg: p.PkgPath, Name: name, Native: native[key]}
			if vt.Native == "" {
				vt.Native = "absent"
			}
			ex := &interp.Explorer{Cfg: icfg, Entry: sp.Func(name), Workers: min(4, runtime.NumCPU()), SampleN: 0}
			st, err := ex.Run()
			if err != nil {
				vt.Engine, vt.Detail = "engine-error", oneLine(err.Error())
				if *verbose {
					fmt.Println(err)
				}
			} else {
				vt.Paths, vt.Steps = st.Paths, st.Steps
				vt.Engine = "pass"
				var bad []string
				for o, n := range st.ByOutcome {
					if o != "ok" && n > 0 {
						bad = append(bad, o)
					}
				}
				sort.Strings(bad)
				if len(bad) > 0 {
					vt.Engine = bad[0]
					if bad[0] == "violation" {
						vt.Engine = "fail"
					}
					for k, rs := range st.Violations {
						if len(rs) > 0 {
							vt.Detail = k + ": " + oneLine(rs[0].Msg)
							break
						}
					}
					if vt.Detail == "" {
						for _, k := range st.Inconclusive {
							vt.Detail = oneLine(k)
							break
						}
					}
				}
				vt.Subs = int(st.Covers["subtest-run"])
			}
			vt.WallSec = time.Since(t0).Seconds()
			vt.Agrees = (vt.Engine == "pass" && vt.Native == "pass") || (vt.Engine == "fail" && vt.Native == "fail") || (vt.Engine == "skip" && vt.Native == "skip")
			switch {
			case vt.Agrees:
				rep.Agree++
			case vt.Engine == "unsupported" || vt.Engine == "limit" || vt.Engine == "unwind":
				rep.Unsupported++
			default:
				rep.Disagree++
			}
			rep.Tests = append(rep.Tests, vt)
			if *verbose || !vt.Agrees {
				fmt.Printf("%-70s engine=%-12s native=%-6s paths=%d steps=%d %s\n", key, vt.Engine, vt.Native, vt.Paths, vt.Steps, vt.Detail)
			}
		}
	}
	if *only == "" {
		data, _ := os.ReadFile(filepath.Join(vd, "harness", "overlay", "root", "selftest.go"))
		for _, line := range strings.Split(string(data), "\n") {
			if !strings.HasPrefix(line, "func HarnessSelf") {
				continue
			}
			name := strings.TrimSuffix(strings.TrimPrefix(line, "func "), "() {")
			cmd := exec.Command(os.Args[0], "run", "-repo", *repo, "-validate", "5", name)
			cmd.Env = os.Environ()
			out, _ := cmd.CombinedOutput()
			txt := string(out)
			st := selfTest{Name: name}
			st.Passed = strings.Contains(txt, "outcomes=map[ok:1]") && strings.Contains(txt, "validated=1") &&
				!strings.Contains(txt, "MISMATCH") && !strings.Contains(txt, "UNREPRODUCED") && !strings.Contains(txt, "violation")
			if !st.Passed {
				st.Detail = oneLine(txt)
				rep.Disagree++
				fmt.Printf("engine self-test %s FAILED: %s\n", name, st.Detail)
			}
			rep.SelfTests = append(rep.SelfTests, st)
		}
	}
	rep.Total = len(rep.Tests)
	rep.WallSec = time.Since(start).Seconds()
	dst := *out
	if dst == "" {
		dst = filepath.Join(vd, "validation", "translator_validation.json")
		os.MkdirAll(filepath.Dir(dst), 0o755)
	}
	data, _ := json.MarshalIndent(rep, "", " ")
	os.WriteFile(dst, data, 0o644)
	fmt.Printf("translator validation: %d repository test functions, engine and go test agree on %d, disagree on %d (incl. failed self-tests), engine cannot run %d; %d engine self-tests (wall %.0fs) -> %s\n",
		rep.Total, rep.Agree, rep.Disagree, rep.Unsupported, len(rep.SelfTests), rep.WallSec, dst)
	if rep.Disagree > 0 {
		return 2
	}
	return 0
}

func oneLine(s string) string {
	if i := strings.IndexByte(s, '\n'); i >= 0 {
		s = s[:i]
	}
	if len(s) > 300 {
		s = s[:300]
	}
	return s
}

// repoTreeID identifies the state of the repository's working tree: HEAD plus the diff against it.
func repoTreeID(repo string) string {
	head, _ := exec.Command("git", "-C", repo, "rev-parse", "HEAD").Output()
	diff, _ := exec.Command("git", "-C", repo, "diff", "HEAD").Output()
	st, _ := exec.Command("git", "-C", repo, "status", "--porcelain").Output()
	h := sha256.Sum256(append(append(head, diff...), st...))
	return hex.EncodeToString(h[:8])
}

// ensureValidation returns the translator-validation summary for the repository's current state, running the
// validation first when the stored report belongs to another state. Concurrent checks serialise on a lock file.
func ensureValidation(repo, vd string) map[string]interface{} {
	dir := filepath.Join(vd, "validation")
	name := "translator_validation.json"
	if repo != "/repo" {
		// scratch trees (seeded changes) get their own file outside /verif
		h := sha256.Sum256([]byte(repo))
		dir = filepath.Join(os.TempDir(), "symgo-validation")
		name = "translator_validation." + hex.EncodeToString(h[:4]) + ".json"
	}
	os.MkdirAll(dir, 0o755)
	path := filepath.Join(dir, name)
	lock, err := os.OpenFile(filepath.Join(dir, ".lock"), os.O_CREATE|os.O_RDWR, 0o644)
	if err == nil {
		syscall.Flock(int(lock.Fd()), syscall.LOCK_EX)
		defer func() { syscall.Flock(int(lock.Fd()), syscall.LOCK_UN); lock.Close() }()
	}
	id := repoTreeID(repo)
	read := func() *validateReport {
		data, err := os.ReadFile(path)
		if err != nil {
			return nil
		}
		var r validateReport
		if json.Unmarshal(data, &r) != nil || r.TreeID != id {
			return nil
		}
		return &r
	}
	r := read()
	if r == nil {
		cmd := exec.Command(os.Args[0], "validate", "-repo", repo, "-out", path)
		cmd.Env = os.Environ()
		out, _ := cmd.CombinedOutput()
		lines := strings.Split(strings.TrimSpace(string(out)), "\n")
		fmt.Println(lines[len(lines)-1])
		r = read()
	}
	if r == nil {
		return map[string]interface{}{"status": "not available"}
	}
	var unsupported []string
	for _, t := range r.Tests {
		if !t.Agrees {
			unsupported = append(unsupported, t.Pkg+"::"+t.Name+" engine="+t.Engine+" native="+t.Native)
		}
	}
	return map[string]interface{}{
		"what":            "every Test function of the repository's own suite executed by the symbolic interpreter; verdict compared with go test",
		"repo_test_funcs": r.Total, "same_verdict": r.Agree, "different_verdict": r.Disagree, "engine_cannot_run": r.Unsupported,
		"not_agreeing": unsupported, "repo_tree_id": r.TreeID, "report": path,
		"engine_self_tests": len(r.SelfTests),
	}
}
