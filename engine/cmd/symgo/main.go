// symgo: bounded symbolic execution of textwire's real Go code (via go/ssa) decided by an SMT solver.
package main

import (
	"encoding/json"
	"flag"
	"fmt"
	"os"
	"path/filepath"
	"runtime"
	"runtime/pprof"
	"sort"
	"strconv"
	"strings"
	"time"

	"symgo/interp"
)

type harnessSpec struct {
	Fn            string            `json:"fn"`
	Pkg           string            `json:"pkg"` // relative package dir, "" = root
	Quick         map[string]int    `json:"quick"`
	Thorough      map[string]int    `json:"thorough"`
	Budget        int64             `json:"budget"`
	RequireCovers []string          `json:"require_covers"`
	MapOrder      string            `json:"map_order"`
	SkipQuick     bool              `json:"skip_quick"`
	Note          string            `json:"note"`
	MaxPaths      int64             `json:"max_paths"`
	HangMs        int               `json:"hang_ms"`
	Race          bool              `json:"race"`
	TryWitnesses  int               `json:"try_witnesses"`
	Redirects     map[string]string `json:"redirects"`   // full SSA function name -> harness function (same package as the harness)
	SpuriousOK    bool              `json:"spurious_ok"` // counterexamples that do not reproduce natively are counted as spurious (over-approximating harness)
}

type checkSpec struct {
	Title     string        `json:"title"`
	Harnesses []harnessSpec `json:"harnesses"`
	Bounds    string        `json:"bounds"`
	Outside   string        `json:"outside"`
	Stubs     []string      `json:"stubs"`
	Technique string        `json:"technique"`
}

type knownFinding struct {
	Property string `json:"property"`
	Harness  string `json:"harness"`
	Key      string `json:"key"` // prefix of "<outcome>:<detail>"
	What     string `json:"what"`
}

type knownFile struct {
	Findings []knownFinding `json:"findings"`
	Fixed    []string       `json:"fixed"`
}

func main() {
	if len(os.Args) < 2 {
		fmt.Fprintln(os.Stderr, "usage: symgo check|run|replay ...")
		os.Exit(2)
	}
	switch os.Args[1] {
	case "check":
		os.Exit(cmdCheck(os.Args[2:]))
	case "run":
		os.Exit(cmdRun(os.Args[2:]))
	case "validate":
		os.Exit(cmdValidate(os.Args[2:]))
	default:
		fmt.Fprintln(os.Stderr, "unknown command", os.Args[1])
		os.Exit(2)
	}
}

func verifDir() string {
	if d := os.Getenv("VERIF_DIR"); d != "" {
		return d
	}
	exe, err := os.Executable()
	if err == nil {
		d := filepath.Dir(filepath.Dir(exe))
		if _, err := os.Stat(filepath.Join(d, "harness")); err == nil {
			return d
		}
	}
	return "/verif"
}

// cmdRun runs one harness ad hoc: symgo run [-pkg rel] [-p N=3] Fn
func cmdRun(args []string) int {
	fs := flag.NewFlagSet("run", flag.ExitOnError)
	repo := fs.String("repo", "/repo", "repository")
	pkg := fs.String("pkg", "", "relative package dir")
	params := fs.String("p", "", "params k=v,k=v")
	workers := fs.Int("workers", runtime.NumCPU(), "workers")
	budget := fs.Int64("budget", 400000, "step budget")
	solver := fs.String("solver", "z3", "z3|z3-new|cvc5")
	maxPaths := fs.Int64("max-paths", 0, "stop after this many paths")
	mapOrder := fs.String("map-order", "", "insertion|all|reverse|sorted")
	replay := fs.Bool("replay", true, "replay violations natively")
	sampleN := fs.Int("validate", 20, "number of passing paths to validate natively")
	verbose := fs.Bool("v", false, "print each path")
	race := fs.Bool("race", false, "native replays run under the race detector")
	cpuprof := fs.String("cpuprofile", "", "write cpu profile")
	redirect := fs.String("redirect", "", "orig=harnessFn[,orig=harnessFn]")
	spurious := fs.Bool("spurious-ok", false, "unreproduced counterexamples are spurious, not mismatches")
	fs.Parse(args)
	if fs.NArg() != 1 {
		fmt.Fprintln(os.Stderr, "usage: symgo run [flags] HarnessFn")
		return 2
	}
	if *cpuprof != "" {
		f, _ := os.Create(*cpuprof)
		pprof.StartCPUProfile(f)
		defer pprof.StopCPUProfile()
	}
	vd := verifDir()
	l, err := load(*repo, filepath.Join(vd, "harness"))
	if err != nil {
		fmt.Fprintln(os.Stderr, "load:", err)
		return 2
	}
	hs := harnessSpec{Fn: fs.Arg(0), Pkg: *pkg, Quick: map[string]int{}, Budget: *budget, MapOrder: *mapOrder, MaxPaths: *maxPaths, Race: *race}
	hs.SpuriousOK = *spurious
	if *redirect != "" {
		hs.Redirects = map[string]string{}
		for _, kv := range strings.Split(*redirect, ",") {
			p := strings.SplitN(kv, "=", 2)
			hs.Redirects[p[0]] = p[1]
		}
	}
	if *params != "" {
		for _, kv := range strings.Split(*params, ",") {
			p := strings.SplitN(kv, "=", 2)
			n, _ := strconv.Atoi(p[1])
			hs.Quick[p[0]] = n
		}
	}
	r := &runner{l: l, repo: *repo, vd: vd, workers: *workers, solver: *solver, timeoutMs: 10000, seed: 0, tier: "quick", prop: "ADHOC", sampleN: *sampleN, verbose: *verbose, doReplay: *replay}
	hr, err := r.runHarness(hs)
	if err != nil {
		fmt.Fprintln(os.Stderr, "error:", err)
		return 2
	}
	printHarnessResult(hr)
	if len(hr.Violations) > 0 {
		return 1
	}
	if hr.Inconclusive() {
		return 2
	}
	return 0
}

func printHarnessResult(hr *harnessResult) {
	st := hr.Stats
	fmt.Printf("harness %s params=%v: paths=%d outcomes=%v forks=%d (symbolic %d) steps=%d maxsteps=%d queries=%d (sat %d unsat %d unknown %d) solver=%.1fs wall=%.1fs obligations=%d discharged=%d validated=%d\n",
		hr.Spec.Fn, hr.Params, st.Paths, st.ByOutcome, st.Forks, st.SymForks, st.Steps, st.MaxSteps, st.Queries, st.QSat, st.QUnsat, st.QUnknown, st.SolverTime.Seconds(), hr.Wall.Seconds(), st.Obligations, st.Discharged, hr.Validated)
	keys := make([]string, 0, len(st.Covers))
	for k := range st.Covers {
		keys = append(keys, k)
	}
	sort.Strings(keys)
	for _, k := range keys {
		fmt.Printf("  cover %-30s %d\n", k, st.Covers[k])
	}
	for _, m := range st.Inconclusive {
		fmt.Println("  INCONCLUSIVE", m)
	}
	for _, m := range hr.Mismatches {
		fmt.Println("  ENGINE-MISMATCH", m)
	}
	for _, v := range hr.Violations {
		fmt.Printf("  violation %s count=%d reproduced=%v replay=%s\n    %s\n", v.Key, v.Count, v.Reproduced, v.ReplayPath, v.Human)
	}
	for _, v := range hr.Unreproduced {
		fmt.Printf("  UNREPRODUCED %s: %s\n", v.Key, v.Human)
	}
	for _, v := range hr.Spurious {
		fmt.Printf("  SPURIOUS (over-approximation, does not reproduce through the real lexer) %s: %s\n", v.Key, v.Human)
	}
}

var translatorValidation map[string]interface{}

func cmdCheck(args []string) int {
	fs := flag.NewFlagSet("check", flag.ExitOnError)
	repo := fs.String("repo", "/repo", "repository")
	tier := fs.String("tier", os.Getenv("VERIF_TIER"), "quick|thorough")
	workers := fs.Int("workers", runtime.NumCPU(), "workers")
	solver := fs.String("solver", "z3", "z3|z3-new|cvc5")
	only := fs.String("only", "", "run only this harness")
	fs.Parse(args)
	if fs.NArg() != 1 {
		fmt.Fprintln(os.Stderr, "usage: symgo check [flags] Cxx")
		return 2
	}
	if *tier == "" {
		*tier = "quick"
	}
	prop := fs.Arg(0)
	seed := int64(0)
	if s := os.Getenv("VERIF_SEED"); s != "" {
		seed, _ = strconv.ParseInt(s, 10, 64)
	}
	vd := verifDir()
	var checks map[string]checkSpec
	data, err := os.ReadFile(filepath.Join(vd, "harness", "checks.json"))
	if err != nil {
		fmt.Fprintln(os.Stderr, err)
		return 2
	}
	if err := json.Unmarshal(data, &checks); err != nil {
		fmt.Fprintln(os.Stderr, "checks.json:", err)
		return 2
	}
	spec, ok := checks[prop]
	if !ok {
		fmt.Fprintln(os.Stderr, "no check for", prop)
		return 2
	}
	var known knownFile
	if data, err := os.ReadFile(filepath.Join(vd, "known_findings.json")); err == nil {
		if err := json.Unmarshal(data, &known); err != nil {
			fmt.Fprintln(os.Stderr, "known_findings.json:", err)
			return 2
		}
	}
	start := time.Now()
	l, err := load(*repo, filepath.Join(vd, "harness"))
	if err != nil {
		fmt.Fprintln(os.Stderr, "cannot build:", err)
		return 2
	}
	loadTime := time.Since(start)
	translatorValidation = ensureValidation(*repo, vd)
	if n, _ := translatorValidation["different_verdict"].(int); n > 0 {
		fmt.Printf("TRANSLATOR-VALIDATION: the interpreter and go test disagree on %d repository tests: %v\n", n, translatorValidation["not_agreeing"])
	}
	timeout := 10000
	sampleN := 40
	if *tier == "thorough" {
		timeout = 60000
		sampleN = 200
	}
	r := &runner{l: l, repo: *repo, vd: vd, workers: *workers, solver: *solver, timeoutMs: timeout, seed: seed, tier: *tier, prop: prop, sampleN: sampleN, doReplay: true}
	var results []*harnessResult
	exit := 0
	for _, hs := range spec.Harnesses {
		if *only != "" && hs.Fn != *only {
			continue
		}
		if *tier == "quick" && hs.SkipQuick {
			continue
		}
		hr, err := r.runHarness(hs)
		if err != nil {
			fmt.Fprintln(os.Stderr, "error:", err)
			return 2
		}
		printHarnessResult(hr)
		results = append(results, hr)
	}
	// verdicts
	nviol := 0
	for _, hr := range results {
		for _, v := range hr.Violations {
			if !v.Reproduced {
				continue
			}
			if kf := matchKnown(&known, prop, hr.Spec.Fn, v.Key); kf != nil {
				fmt.Printf("KNOWN-FINDING: property=%s %s [%s %s]\n", prop, kf.What, hr.Spec.Fn, v.Key)
				v.Known = true
				continue
			}
			fmt.Printf("VIOLATION property=%s replay=%s\n", prop, v.ReplayPath)
			fmt.Printf("  %s %s: %s\n", hr.Spec.Fn, v.Key, v.Human)
			nviol++
			exit = 1
		}
		if len(hr.Mismatches) > 0 || len(hr.Unreproduced) > 0 {
			fmt.Printf("ENGINE-MISMATCH in %s (%d validation mismatches, %d unreproduced counterexamples)\n", hr.Spec.Fn, len(hr.Mismatches), len(hr.Unreproduced))
			if exit == 0 {
				exit = 2
			}
		}
		if hr.Inconclusive() {
			fmt.Printf("INCONCLUSIVE %s: %v\n", hr.Spec.Fn, hr.InconclusiveWhy())
			if exit == 0 {
				exit = 2
			}
		}
		for _, c := range hr.Spec.RequireCovers {
			if hr.Stats.Covers[c] == 0 {
				fmt.Printf("VACUOUS %s: cover label %q never reached\n", hr.Spec.Fn, c)
				if exit == 0 {
					exit = 2
				}
			}
		}
	}
	if err := writeEvidence(vd, prop, *tier, seed, &spec, results, time.Since(start), loadTime, nviol); err != nil {
		fmt.Fprintln(os.Stderr, "evidence:", err)
		return 2
	}
	if n, _ := translatorValidation["different_verdict"].(int); n > 0 && exit == 0 {
		exit = 2 // the interpreter disagrees with go test on the repository's own tests: nothing it says about this tree is trusted
	}
	if exit == 0 {
		fmt.Printf("OK property=%s tier=%s harnesses=%d wall=%.1fs\n", prop, *tier, len(results), time.Since(start).Seconds())
	}
	return exit
}

func matchKnown(k *knownFile, prop, harness, key string) *knownFinding {
	for i := range k.Findings {
		f := &k.Findings[i]
		if f.Property == prop && (f.Harness == "" || f.Harness == harness) && strings.HasPrefix(key, f.Key) {
			return f
		}
	}
	return nil
}

type violation struct {
	Key        string
	Count      int64
	Reproduced bool
	Known      bool
	ReplayPath string
	Human      string
	Native     string
}

type harnessResult struct {
	Spec         harnessSpec
	Params       map[string]int
	Stats        *interp.ExploreStats
	Wall         time.Duration
	Violations   []*violation
	Unreproduced []*violation
	Spurious     []*violation
	Mismatches   []string
	Validated    int
	Samples      []map[string]interface{}
}

func (hr *harnessResult) Inconclusive() bool {
	st := hr.Stats
	return st.ByOutcome["unsupported"] > 0 || st.ByOutcome["limit"] > 0 || st.Truncated || st.TimedOut || st.QUnknown > 0 || st.ByOutcome["unwind-terminates"] > 0
}

func (hr *harnessResult) InconclusiveWhy() []string {
	st := hr.Stats
	var out []string
	for _, k := range []string{"unsupported", "limit", "unwind-terminates"} {
		if st.ByOutcome[k] > 0 {
			out = append(out, fmt.Sprintf("%s paths=%d", k, st.ByOutcome[k]))
		}
	}
	if st.Truncated {
		out = append(out, "exploration truncated")
	}
	if st.TimedOut {
		out = append(out, "exploration timed out")
	}
	if st.QUnknown > 0 {
		out = append(out, fmt.Sprintf("solver unknown=%d", st.QUnknown))
	}
	out = append(out, st.Inconclusive...)
	return out
}
