package main

import (
	"fmt"
	"go/ast"
	"go/types"
	"os"
	"path/filepath"
	"sort"
	"strings"

	"golang.org/x/tools/go/packages"
	"golang.org/x/tools/go/ssa"
	"golang.org/x/tools/go/ssa/ssautil"

	"symgo/interp"
)

const repoModule = "github.com/textwire/textwire/v2"

// stdInit lists standard-library packages whose package initialisers are interpreted (pure tables / error values).
var stdInit = map[string]bool{
	"errors": true, "internal/oserror": true, "io": true, "io/fs": true, "unicode/utf8": true, "unicode": true,
	"strings": true, "bytes": true, "strconv": true, "html": true, "math": true, "math/bits": true, "sort": true,
	"path": true, "path/filepath": true, "internal/filepathlite": true, "internal/stringslite": true, "internal/bytealg": true,
	"internal/itoa": true, "unicode/utf16": true, "slices": true, "maps": true, "cmp": true, "iter": true,
}

type loaded struct {
	prog     *ssa.Program
	pkgs     []*packages.Package
	repoPkgs []*ssa.Package
	stdPkgs  []*ssa.Package
	byPath   map[string]*ssa.Package
	embeds   map[string]string
	overlay  map[string][]byte
	// harness bookkeeping: package path -> harness function names, and overlay files per package dir
	harnessFuncs map[string][]string
	harnessFiles map[string][]string // pkg path -> source files in /verif/harness/overlay
	pkgDir       map[string]string   // pkg path -> dir
	pkgName      map[string]string
}

func goEnv() []string {
	env := os.Environ()
	env = append(env, "GOFLAGS=-mod=mod", "GOPROXY=off", "GOSUMDB=off", "GOTOOLCHAIN=local", "CGO_ENABLED=0")
	return env
}

// overlayFor computes the overlay: every file in harnessDir/overlay/<rel>/x.go becomes repo/<rel>/zz_verif_x.go,
// and each such package also gets the API declarations (sym variant).
func overlayFor(repo, harnessDir string, native bool) (map[string][]byte, map[string][]string, error) {
	ov := map[string][]byte{}
	files := map[string][]string{} // rel dir -> source files
	root := filepath.Join(harnessDir, "overlay")
	err := filepath.Walk(root, func(p string, info os.FileInfo, err error) error {
		if err != nil {
			return err
		}
		if info.IsDir() || !strings.HasSuffix(p, ".go") {
			return nil
		}
		rel, _ := filepath.Rel(root, filepath.Dir(p))
		if rel == "root" {
			rel = "."
		} else {
			rel = strings.TrimPrefix(rel, "root/")
		}
		data, err := os.ReadFile(p)
		if err != nil {
			return err
		}
		dst := filepath.Join(repo, rel, "zz_verif_"+filepath.Base(p))
		ov[dst] = data
		files[rel] = append(files[rel], p)
		return nil
	})
	if err != nil {
		return nil, nil, err
	}
	tmplName := "api_sym.go.tmpl"
	if native {
		tmplName = "api_native.go.tmpl"
	}
	tmpl, err := os.ReadFile(filepath.Join(harnessDir, "api", tmplName))
	if err != nil {
		return nil, nil, err
	}
	for rel, fs := range files {
		pkgName, err := packageNameOf(fs[0])
		if err != nil {
			return nil, nil, err
		}
		src := strings.ReplaceAll(string(tmpl), "PKGNAME", pkgName)
		ov[filepath.Join(repo, rel, "zz_verif_api.go")] = []byte(src)
	}
	return ov, files, nil
}

func packageNameOf(file string) (string, error) {
	data, err := os.ReadFile(file)
	if err != nil {
		return "", err
	}
	for _, line := range strings.Split(string(data), "\n") {
		line = strings.TrimSpace(line)
		if strings.HasPrefix(line, "package ") {
			return strings.Fields(line)[1], nil
		}
	}
	return "", fmt.Errorf("no package clause in %s", file)
}

func load(repo, harnessDir string) (*loaded, error) {
	ov, files, err := overlayFor(repo, harnessDir, false)
	if err != nil {
		return nil, err
	}
	cfg := &packages.Config{
		Mode:       packages.LoadAllSyntax,
		Dir:        repo,
		Env:        goEnv(),
		BuildFlags: []string{"-tags=verif"},
		Overlay:    ov,
	}
	pkgs, err := packages.Load(cfg, "./...")
	if err != nil {
		return nil, err
	}
	nerr := 0
	packages.Visit(pkgs, nil, func(p *packages.Package) {
		for _, e := range p.Errors {
			if strings.HasPrefix(p.PkgPath, repoModule) {
				fmt.Fprintf(os.Stderr, "load error: %s: %v\n", p.PkgPath, e)
				nerr++
			}
		}
	})
	if nerr > 0 {
		return nil, fmt.Errorf("repository does not type-check (%d errors)", nerr)
	}
	prog, _ := ssautil.AllPackages(pkgs, ssa.InstantiateGenerics)
	l := &loaded{prog: prog, pkgs: pkgs, byPath: map[string]*ssa.Package{}, embeds: map[string]string{}, overlay: ov,
		harnessFuncs: map[string][]string{}, harnessFiles: map[string][]string{}, pkgDir: map[string]string{}, pkgName: map[string]string{}}
	// dependency order over all packages reachable from the repo packages
	seen := map[*types.Package]bool{}
	var order []*types.Package
	var visit func(p *types.Package)
	visit = func(p *types.Package) {
		if seen[p] {
			return
		}
		seen[p] = true
		imps := p.Imports()
		sort.Slice(imps, func(i, j int) bool { return imps[i].Path() < imps[j].Path() })
		for _, q := range imps {
			visit(q)
		}
		order = append(order, p)
	}
	sort.Slice(pkgs, func(i, j int) bool { return pkgs[i].PkgPath < pkgs[j].PkgPath })
	for _, p := range pkgs {
		if p.Types != nil && !strings.Contains(p.PkgPath, "/lsp") && !strings.Contains(p.PkgPath, "/repl") && !strings.Contains(p.PkgPath, "/textwire/example") {
			visit(p.Types)
		}
	}
	for _, tp := range order {
		sp := prog.Package(tp)
		if sp == nil {
			continue
		}
		l.byPath[tp.Path()] = sp
		if strings.HasPrefix(tp.Path(), repoModule) {
			sp.Build()
			l.repoPkgs = append(l.repoPkgs, sp)
		} else if stdInit[tp.Path()] {
			sp.Build()
			l.stdPkgs = append(l.stdPkgs, sp)
		}
	}
	// embeds and harness functions
	for _, p := range pkgs {
		if !strings.HasPrefix(p.PkgPath, repoModule) {
			continue
		}
		rel := strings.TrimPrefix(strings.TrimPrefix(p.PkgPath, repoModule), "/")
		if rel == "" {
			rel = "."
		}
		l.pkgDir[p.PkgPath] = filepath.Join(repo, rel)
		l.pkgName[p.PkgPath] = p.Name
		if fs, ok := files[rel]; ok {
			l.harnessFiles[p.PkgPath] = fs
		}
		for _, f := range p.Syntax {
			fname := p.Fset.Position(f.Pos()).Filename
			for _, d := range f.Decls {
				switch d := d.(type) {
				case *ast.GenDecl:
					if d.Doc == nil {
						continue
					}
					for _, c := range d.Doc.List {
						if strings.HasPrefix(c.Text, "//go:embed ") {
							target := strings.TrimSpace(strings.TrimPrefix(c.Text, "//go:embed "))
							for _, s := range d.Specs {
								if vs, ok := s.(*ast.ValueSpec); ok && len(vs.Names) == 1 {
									data, err := os.ReadFile(filepath.Join(filepath.Dir(fname), target))
									if err != nil {
										return nil, fmt.Errorf("go:embed %s: %v", target, err)
									}
									l.embeds[p.PkgPath+"."+vs.Names[0].Name] = string(data)
								}
							}
						}
					}
				case *ast.FuncDecl:
					if d.Recv == nil && strings.HasPrefix(d.Name.Name, "Harness") && strings.Contains(filepath.Base(fname), "zz_verif_") {
						l.harnessFuncs[p.PkgPath] = append(l.harnessFuncs[p.PkgPath], d.Name.Name)
					}
				}
			}
		}
	}
	return l, nil
}

// collectEmbeds fills l.embeds from the //go:embed directives of the repository packages.
func collectEmbeds(l *loaded, pkgs []*packages.Package) {
	packages.Visit(pkgs, nil, func(p *packages.Package) {
		if !strings.HasPrefix(p.PkgPath, repoModule) {
			return
		}
		for _, f := range p.Syntax {
			fname := p.Fset.Position(f.Pos()).Filename
			for _, d := range f.Decls {
				gd, ok := d.(*ast.GenDecl)
				if !ok || gd.Doc == nil {
					continue
				}
				for _, c := range gd.Doc.List {
					if strings.HasPrefix(c.Text, "//go:embed ") {
						target := strings.TrimSpace(strings.TrimPrefix(c.Text, "//go:embed "))
						for _, sp := range gd.Specs {
							if vs, ok := sp.(*ast.ValueSpec); ok && len(vs.Names) == 1 {
								if data, err := os.ReadFile(filepath.Join(filepath.Dir(fname), target)); err == nil {
									l.embeds[p.PkgPath+"."+vs.Names[0].Name] = string(data)
								}
							}
						}
					}
				}
			}
		}
	})
}

func (l *loaded) config(kind string, timeoutMs int) *interp.Config {
	cfg := &interp.Config{
		Prog: l.prog, RepoPkgs: l.repoPkgs, StdInitPkgs: l.stdPkgs, Redirects: map[string]*ssa.Function{},
		StepBudget: 400000, DepthBudget: 400, SolverKind: kind, TimeoutMs: timeoutMs, Embeds: l.embeds,
	}
	if root := l.byPath[repoModule]; root != nil {
		if t := root.Type("vfsErr"); t != nil {
			cfg.VfsErrType = t.Type()
		}
		if t := root.Type("vfsFileInfo"); t != nil {
			cfg.FileInfoType = t.Type()
		}
	}
	return cfg
}
