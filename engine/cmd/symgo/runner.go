package main

import (
	"bufio"
	"bytes"
	"encoding/json"
	"fmt"
	"os"
	"os/exec"
	"path/filepath"
	"sort"
	"strings"
	"time"

	"symgo/interp"
)

type runner struct {
	l         *loaded
	repo      string
	vd        string
	workers   int
	solver    string
	timeoutMs int
	seed      int64
	tier      string
	prop      string
	sampleN   int
	verbose   bool
	doReplay  bool
}

type nativeCase struct {
	ID      string         `json:"id"`
	Harness string         `json:"harness"`
	Params  map[string]int `json:"params"`
	Inputs  []interp.Input `json:"inputs"`
}

type nativeObs struct {
	Label string `json:"label"`
	Value string `json:"value"`
}

type nativeResult struct {
	ID      string      `json:"id"`
	Outcome string      `json:"outcome"`
	Detail  string      `json:"detail"`
	Obs     []nativeObs `json:"obs"`
	Covers  []string    `json:"covers"`
}

func (r *runner) pkgPath(rel string) string {
	if rel == "" || rel == "." {
		return repoModule
	}
	return repoModule + "/" + rel
}

func (r *runner) runHarness(hs harnessSpec) (*harnessResult, error) {
	start := time.Now()
	params := hs.Quick
	if r.tier == "thorough" && hs.Thorough != nil {
		params = hs.Thorough
	}
	if params == nil {
		params = map[string]int{}
	}
	pp := r.pkgPath(hs.Pkg)
	sp := r.l.byPath[pp]
	if sp == nil {
		return nil, fmt.Errorf("package %s not loaded", pp)
	}
	entry := sp.Func(hs.Fn)
	if entry == nil {
		return nil, fmt.Errorf("harness %s not found in %s", hs.Fn, pp)
	}
	cfg := r.l.config(r.solver, r.timeoutMs)
	cfg.Params = map[string]int64{}
	for k, v := range params {
		cfg.Params[k] = int64(v)
	}
	if hs.Budget > 0 {
		cfg.StepBudget = hs.Budget
	}
	cfg.MapOrder = hs.MapOrder
	for orig, repl := range hs.Redirects {
		f := sp.Func(repl)
		if f == nil {
			return nil, fmt.Errorf("redirect target %s not found in %s", repl, pp)
		}
		cfg.Redirects[orig] = f
	}
	ex := &interp.Explorer{Cfg: cfg, Entry: entry, Workers: r.workers, Seed: r.seed, SampleN: r.sampleN, MaxPaths: hs.MaxPaths}
	if r.verbose {
		ex.OnResult = func(pr *interp.PathResult) {
			fmt.Printf("path %v %s %s %s steps=%d\n", pr.Decisions, pr.Outcome, pr.Detail, pr.Msg, pr.Steps)
		}
	}
	st, err := ex.Run()
	if err != nil {
		return nil, err
	}
	hr := &harnessResult{Spec: hs, Params: params, Stats: st}
	// counterexamples
	keys := make([]string, 0, len(st.Violations))
	for k := range st.Violations {
		keys = append(keys, k)
	}
	sort.Strings(keys)
	hangMs := hs.HangMs
	if hangMs == 0 {
		hangMs = 10000
	}
	for _, k := range keys {
		prs := st.Violations[k]
		v := &violation{Key: k, Count: st.ViolCount[k]}
		var cands []*interp.PathResult
		for _, c := range prs {
			if c.HasModel {
				cands = append(cands, c)
			}
		}
		if len(cands) == 0 {
			v.Human = "no model available (solver unknown): " + prs[0].Msg
			hr.Unreproduced = append(hr.Unreproduced, v)
			continue
		}
		maxTry := 1
		if hs.Race || hs.TryWitnesses > 0 {
			maxTry = 6
			if hs.TryWitnesses > 0 {
				maxTry = hs.TryWitnesses
			}
		}
		terminates := false
		for ti, pr := range cands {
			if ti >= maxTry {
				break
			}
			c := nativeCase{ID: "cex", Harness: hs.Fn, Params: params, Inputs: nativeInputs(pr.Inputs)}
			v.Human = fmt.Sprintf("%s %s | inputs: %s", pr.Msg, pr.Pos, humanInputs(pr.Inputs))
			if len(v.Human) > 1200 {
				v.Human = v.Human[:1200] + "…"
			}
			dir := filepath.Join(r.vd, "replays", r.prop)
			os.MkdirAll(dir, 0o755)
			path := filepath.Join(dir, fmt.Sprintf("%s-%s.json", hs.Fn, sanitize(k)))
			writeJSON(path, map[string]interface{}{"property": r.prop, "harness": hs.Fn, "pkg": hs.Pkg, "predicted": map[string]string{"outcome": pr.Outcome, "detail": pr.Detail, "msg": pr.Msg, "pos": pr.Pos}, "timeout_ms": hangMs, "cases": []nativeCase{c}})
			v.ReplayPath = path
			if !r.doReplay {
				v.Reproduced = true
				break
			}
			nres, err := r.nativeRunOpt(hs.Pkg, []nativeCase{c}, hangMs, hs.Race)
			if err != nil {
				return nil, fmt.Errorf("native replay: %v", err)
			}
			nr, ok := nres["cex"]
			if !ok {
				v.Native = "no result (process died: out of memory or fatal error)"
				// a crash of the whole test process is a reproduced crash for panic-type predictions
				if pr.Outcome == "panic" {
					v.Reproduced = true
				}
			} else {
				v.Native = nr.Outcome + " " + firstLine(nr.Detail)
				switch pr.Outcome {
				case "violation":
					v.Reproduced = nr.Outcome == "assert" && nr.Detail == pr.Detail
					if nr.Outcome == "panic" || nr.Outcome == "hang" {
						v.Reproduced = true // even worse natively
					}
					if hs.Race && (nr.Outcome == "race" || nr.Outcome == "assert") {
						// the symbolic side reports a store to shared state; natively that shows as a data race or as a
						// concurrent call whose result differs from its solo result
						v.Reproduced = true
					}
				case "panic":
					v.Reproduced = nr.Outcome == "panic"
				case "unwind":
					v.Reproduced = nr.Outcome == "hang"
					if nr.Outcome == "ok" || nr.Outcome == "assert" || nr.Outcome == "panic" {
						terminates = true
					}
				}
			}
			v.Human += " | native: " + v.Native
			if v.Reproduced {
				break
			}
		}
		if !v.Reproduced && terminates {
			// terminates natively: the engine's budget was too small, not a finding
			st.ByOutcome["unwind-terminates"] += st.ViolCount[k]
			v.Human += " (terminates natively; engine step budget too small)"
		}
		if v.Reproduced {
			hr.Violations = append(hr.Violations, v)
		} else if hs.SpuriousOK {
			hr.Spurious = append(hr.Spurious, v)
		} else if !strings.HasPrefix(k, "unwind:") {
			hr.Unreproduced = append(hr.Unreproduced, v)
		}
	}
	// validation of passing paths against the real build
	if r.doReplay && len(st.Samples) > 0 {
		var cases []nativeCase
		for i, pr := range st.Samples {
			if hasEnvInput(pr.Inputs) {
				continue // depends on environment nondeterminism (rand, time): cannot be forced natively
			}
			cases = append(cases, nativeCase{ID: fmt.Sprintf("s%d", i), Harness: hs.Fn, Params: params, Inputs: pr.Inputs})
		}
		nres, err := r.nativeRunOpt(hs.Pkg, cases, hangMs, hs.Race)
		if err != nil {
			return nil, fmt.Errorf("native validation: %v", err)
		}
		for i, pr := range st.Samples {
			id := fmt.Sprintf("s%d", i)
			if hasEnvInput(pr.Inputs) {
				continue
			}
			nr, ok := nres[id]
			if !ok {
				hr.Mismatches = append(hr.Mismatches, fmt.Sprintf("%s: no native result; inputs %s", id, humanInputs(pr.Inputs)))
				continue
			}
			if msg := compareNative(pr, nr); msg != "" {
				hr.Mismatches = append(hr.Mismatches, fmt.Sprintf("%s: %s; inputs %s", id, msg, humanInputs(pr.Inputs)))
				continue
			}
			hr.Validated++
		}
	}
	for i, pr := range st.Samples {
		if i >= 5 {
			break
		}
		s := map[string]interface{}{"inputs": humanInputs(pr.Inputs), "outcome": pr.Outcome, "forks": pr.Forks, "steps": pr.Steps}
		if len(pr.Obs) > 0 {
			obs := map[string]string{}
			for _, o := range pr.Obs {
				obs[o.Label] = o.Value
			}
			s["observed"] = obs
		}
		hr.Samples = append(hr.Samples, s)
	}
	hr.Wall = time.Since(start)
	return hr, nil
}

// nativeInputs drops environment inputs (rand, time), which the native run draws from the real environment.
func nativeInputs(ins []interp.Input) []interp.Input {
	var out []interp.Input
	for _, i := range ins {
		if i.Kind != "env" {
			out = append(out, i)
		}
	}
	return out
}

func hasEnvInput(ins []interp.Input) bool {
	for _, i := range ins {
		if i.Kind == "env" {
			return true
		}
	}
	return false
}

func compareNative(pr *interp.PathResult, nr nativeResult) string {
	if nr.Outcome != "ok" {
		return fmt.Sprintf("engine says ok, native says %s %s", nr.Outcome, firstLine(nr.Detail))
	}
	if len(nr.Obs) != len(pr.Obs) {
		return fmt.Sprintf("engine has %d observations, native %d", len(pr.Obs), len(nr.Obs))
	}
	for i := range nr.Obs {
		if nr.Obs[i].Label != pr.Obs[i].Label || nr.Obs[i].Value != pr.Obs[i].Value {
			return fmt.Sprintf("observation %q: engine %q, native %q", pr.Obs[i].Label, pr.Obs[i].Value, nr.Obs[i].Value)
		}
	}
	if strings.Join(visibleCovers(nr.Covers), ",") != strings.Join(visibleCovers(pr.Covers), ",") {
		return fmt.Sprintf("covers: engine %v native %v", pr.Covers, nr.Covers)
	}
	return ""
}

// visibleCovers drops labels that only the engine can produce (prefix "engine-").
func visibleCovers(cs []string) []string {
	var out []string
	for _, c := range cs {
		if !strings.HasPrefix(c, "engine-") {
			out = append(out, c)
		}
	}
	return out
}

func firstLine(s string) string {
	if i := strings.IndexByte(s, '\n'); i >= 0 {
		return s[:i]
	}
	return s
}

func sanitize(s string) string {
	var sb strings.Builder
	for _, c := range s {
		if (c >= 'a' && c <= 'z') || (c >= 'A' && c <= 'Z') || (c >= '0' && c <= '9') || c == '-' || c == '.' {
			sb.WriteRune(c)
		} else {
			sb.WriteByte('_')
		}
	}
	r := sb.String()
	if len(r) > 80 {
		r = r[:80]
	}
	return r
}

func humanInputs(ins []interp.Input) string {
	var sb strings.Builder
	// group consecutive bytes with a common name prefix into a quoted string
	i := 0
	for i < len(ins) {
		in := ins[i]
		if in.Kind == "byte" {
			j := i
			var bs []byte
			for j < len(ins) && ins[j].Kind == "byte" {
				bs = append(bs, byte(ins[j].V))
				j++
			}
			fmt.Fprintf(&sb, "%s..=%q ", in.Name, string(bs))
			i = j
			continue
		}
		switch in.Kind {
		case "int64":
			fmt.Fprintf(&sb, "%s=%d ", in.Name, int64(in.V))
		case "float64":
			fmt.Fprintf(&sb, "%s=float64bits(%#x) ", in.Name, in.V)
		default:
			fmt.Fprintf(&sb, "%s=%d ", in.Name, in.V)
		}
		i++
	}
	return strings.TrimSpace(sb.String())
}

func writeJSON(path string, v interface{}) error {
	data, err := json.MarshalIndent(v, "", " ")
	if err != nil {
		return err
	}
	return os.WriteFile(path, append(data, '\n'), 0o644)
}

// nativeRun compiles the harness package with the native shims and runs the given cases through `go test`.
func (r *runner) nativeRun(relPkg string, cases []nativeCase, hangMs int) (map[string]nativeResult, error) {
	return r.nativeRunOpt(relPkg, cases, hangMs, false)
}

// nativeRunOpt: with race=true the test binary is built with the race detector; a reported data race marks every
// case of that run as outcome "race".
func (r *runner) nativeRunOpt(relPkg string, cases []nativeCase, hangMs int, race bool) (map[string]nativeResult, error) {
	out := map[string]nativeResult{}
	pp := r.pkgPath(relPkg)
	tmp, err := os.MkdirTemp("", "symgo-replay")
	if err != nil {
		return nil, err
	}
	defer os.RemoveAll(tmp)
	// overlay: harness files + native API + test driver
	ov := map[string]string{}
	dir := r.l.pkgDir[pp]
	for _, f := range r.l.harnessFiles[pp] {
		ov[filepath.Join(dir, "zz_verif_"+filepath.Base(f))] = f
	}
	// other packages' harness files also need their API (they are compiled only if imported; harmless)
	for opp, files := range r.l.harnessFiles {
		if opp == pp {
			continue
		}
		odir := r.l.pkgDir[opp]
		for _, f := range files {
			ov[filepath.Join(odir, "zz_verif_"+filepath.Base(f))] = f
		}
		tmpl, _ := os.ReadFile(filepath.Join(r.vd, "harness", "api", "api_native.go.tmpl"))
		p := filepath.Join(tmp, "api_"+sanitize(opp)+".go")
		os.WriteFile(p, []byte(strings.ReplaceAll(string(tmpl), "PKGNAME", r.l.pkgName[opp])), 0o644)
		ov[filepath.Join(odir, "zz_verif_api.go")] = p
	}
	tmpl, err := os.ReadFile(filepath.Join(r.vd, "harness", "api", "api_native.go.tmpl"))
	if err != nil {
		return nil, err
	}
	apiPath := filepath.Join(tmp, "api_native.go")
	os.WriteFile(apiPath, []byte(strings.ReplaceAll(string(tmpl), "PKGNAME", r.l.pkgName[pp])), 0o644)
	ov[filepath.Join(dir, "zz_verif_api.go")] = apiPath
	ttmpl, err := os.ReadFile(filepath.Join(r.vd, "harness", "api", "replay_test.go.tmpl"))
	if err != nil {
		return nil, err
	}
	var hm strings.Builder
	for _, fn := range r.l.harnessFuncs[pp] {
		fmt.Fprintf(&hm, "\t%q: %s,\n", fn, fn)
	}
	tsrc := strings.ReplaceAll(string(ttmpl), "PKGNAME", r.l.pkgName[pp])
	tsrc = strings.ReplaceAll(tsrc, "HARNESSMAP", hm.String())
	testPath := filepath.Join(tmp, "replay_test.go")
	os.WriteFile(testPath, []byte(tsrc), 0o644)
	ov[filepath.Join(dir, "zz_verif_replay_test.go")] = testPath
	ovPath := filepath.Join(tmp, "overlay.json")
	writeJSON(ovPath, map[string]interface{}{"Replace": ov})

	remaining := cases
	for attempt := 0; len(remaining) > 0 && attempt < len(cases)+2; attempt++ {
		casePath := filepath.Join(tmp, fmt.Sprintf("cases%d.json", attempt))
		writeJSON(casePath, map[string]interface{}{"cases": remaining, "timeout_ms": hangMs})
		// the address-space limit turns a runaway allocation of a counterexample into a clean crash of the test binary
		cmd := exec.Command("sh", "-c", "ulimit -v 24000000; exec go test -tags 'verif verifnative' -overlay "+ovPath+" -run '^TestVerifReplay$' -count=1 -v -vet=off -timeout 1200s "+pp)
		if race {
			cmd = exec.Command("go", "test", "-race", "-tags", "verif verifnative", "-overlay", ovPath, "-run", "^TestVerifReplay$", "-count=1", "-v", "-vet=off", "-timeout", "1200s", pp)
		}
		cmd.Dir = r.repo
		cmd.Env = append(goEnv(), "VERIF_REPLAY_FILE="+casePath)
		if race {
			cmd.Env = append(cmd.Env, "CGO_ENABLED=1")
		}
		var stdout, stderr bytes.Buffer
		cmd.Stdout = &stdout
		cmd.Stderr = &stderr
		runErr := cmd.Run()
		outStr, errStr := stdout.String(), stderr.String()
		got := 0
		if os.Getenv("SYMGO_DEBUG_NATIVE") != "" {
			fmt.Fprintf(os.Stderr, "native run: err=%v\nstdout:\n%s\nstderr:\n%s\n", runErr, truncate(outStr, 4000), truncate(errStr, 4000))
		}
		sc := bufio.NewScanner(strings.NewReader(outStr))
		sc.Buffer(make([]byte, 1<<20), 1<<26)
		for sc.Scan() {
			line := sc.Text()
			if i := strings.Index(line, "VERIF-RESULT "); i >= 0 {
				var nr nativeResult
				if err := json.Unmarshal([]byte(line[i+len("VERIF-RESULT "):]), &nr); err == nil {
					out[nr.ID] = nr
					got++
				}
			}
		}
		if race && (strings.Contains(outStr, "WARNING: DATA RACE") || strings.Contains(errStr, "WARNING: DATA RACE")) {
			where := ""
			txt := outStr + errStr
			if i := strings.Index(txt, "WARNING: DATA RACE"); i >= 0 {
				where = truncate(txt[i:], 700)
			}
			for _, c := range remaining {
				out[c.ID] = nativeResult{ID: c.ID, Outcome: "race", Detail: where}
			}
			return out, nil
		}
		if got == 0 && runErr != nil {
			// build failure or immediate crash
			txt := outStr + errStr
			if strings.Contains(txt, "[build failed]") || strings.Contains(txt, "cannot find") || strings.Contains(txt, "syntax error") {
				return nil, fmt.Errorf("native build failed:\n%s", txt)
			}
			// process died on the first remaining case: leave it without result and continue with the rest
			if len(remaining) > 0 {
				out[remaining[0].ID+"#crash"] = nativeResult{ID: remaining[0].ID, Outcome: "crash", Detail: truncate(txt, 600)}
				remaining = remaining[1:]
				continue
			}
		}
		var rest []nativeCase
		for _, c := range remaining {
			if _, ok := out[c.ID]; !ok {
				rest = append(rest, c)
			}
		}
		if len(rest) == len(remaining) && got == 0 {
			break
		}
		// if the process exited early (hang or crash), the first missing case is retried alone next round
		if len(rest) > 0 && len(rest) == len(remaining) {
			break
		}
		remaining = rest
	}
	return out, nil
}

func truncate(s string, n int) string {
	if len(s) > n {
		return s[:n]
	}
	return s
}

// ---- evidence ----

func writeEvidence(vd, prop, tier string, seed int64, spec *checkSpec, results []*harnessResult, wall, loadTime time.Duration, nviol int) error {
	var paths, forks, symForks, validated, obligations, discharged, queries, qsat, qunsat, qunk int64
	var solverS float64
	byOutcome := map[string]int64{}
	fnInstr := map[string]int64{}
	var samples []interface{}
	var harnesses []interface{}
	exhaustive := true
	var inconclusive []string
	for _, hr := range results {
		st := hr.Stats
		paths += st.Paths
		forks += st.Forks
		symForks += st.SymForks
		validated += int64(hr.Validated)
		obligations += st.Obligations
		discharged += st.Discharged
		queries += st.Queries
		qsat += st.QSat
		qunsat += st.QUnsat
		qunk += st.QUnknown
		solverS += st.SolverTime.Seconds()
		for k, v := range st.ByOutcome {
			byOutcome[k] += v
		}
		for k, v := range st.FnInstr {
			fnInstr[k] += v
		}
		for _, s := range hr.Samples {
			s["harness"] = hr.Spec.Fn
			samples = append(samples, s)
		}
		if hr.Inconclusive() {
			exhaustive = false
			inconclusive = append(inconclusive, hr.InconclusiveWhy()...)
		}
		var viols []interface{}
		for _, v := range hr.Violations {
			viols = append(viols, map[string]interface{}{"key": v.Key, "count": v.Count, "known": v.Known, "replay": v.ReplayPath, "what": v.Human})
		}
		harnesses = append(harnesses, map[string]interface{}{
			"harness": hr.Spec.Fn, "params": hr.Params, "paths": st.Paths, "paths_by_outcome": st.ByOutcome, "fork_decisions": st.Forks,
			"solver_decided_forks": st.SymForks, "interpreted_instructions": st.Steps, "max_instructions_on_a_path": st.MaxSteps, "step_budget": budgetOf(hr),
			"spurious_counterexamples": len(hr.Spurious),
			"queries":                  st.Queries, "wall_s": round1(hr.Wall.Seconds()), "validated_natively": hr.Validated, "cover_labels": st.Covers, "violations": viols, "note": hr.Spec.Note,
		})
	}
	// functions encoded: repository functions only, sorted by instruction count
	type fc struct {
		name string
		n    int64
	}
	var fcs []fc
	for k, v := range fnInstr {
		if strings.Contains(k, "textwire") && !strings.Contains(k, "Harness") {
			fcs = append(fcs, fc{k, v})
		}
	}
	sort.Slice(fcs, func(i, j int) bool { return fcs[i].n > fcs[j].n })
	var fnames []string
	for _, f := range fcs {
		fnames = append(fnames, strings.ReplaceAll(f.name, repoModule, "tw"))
	}
	if len(samples) == 0 {
		samples = append(samples, map[string]interface{}{"note": "no passing path sampled"})
	}
	if paths == 0 {
		paths = 1
	}
	if forks == 0 {
		forks = 1
	}
	ev := map[string]interface{}{
		"property_id": prop,
		"tier":        tier,
		"seed":        seed,
		"level":       "model_checking",
		"wall_s":      round1(wall.Seconds()),
		"violations":  nviol,
		"coverage": map[string]interface{}{
			"states":                        paths,
			"transitions":                   forks,
			"traces_validated_against_impl": validated,
			"samples":                       samples,
			"evaluations":                   paths,
			"distinct_nontrivial":           symForkPaths(results),
			"rule":                          "one evaluation = one explored path of a harness (distinct by decision vector; the paths partition the bounded input space). distinct_nontrivial counts paths whose path condition contains at least one solver-decided fork on symbolic data.",
			"exhaustive":                    exhaustive,
			"obligations":                   obligations,
			"discharged":                    discharged,
			"functions_encoded":             fnames,
			"bounds":                        spec.Bounds,
			"outside_the_claim":             spec.Outside,
			"queries":                       map[string]int64{"total": queries, "sat": qsat, "unsat": qunsat, "unknown": qunk},
			"solver_s":                      round1(solverS),
			"solver":                        "z3 4.8.12 over a pipe (SMT-LIB2, QF_BV + QF_FP terms, incremental push/pop)",
			"load_ssa_s":                    round1(loadTime.Seconds()),
			"paths_by_outcome":              byOutcome,
			"harnesses":                     harnesses,
			"inconclusive":                  inconclusive,
			"stubs_used":                    spec.Stubs,
			"translator_validation":         translatorValidation,
		},
		"assumptions": []string{
			"go/ssa (x/tools v0.29.0) is a faithful lowering of the repository's Go source; the symgo interpreter implements SSA semantics (cross-checked on every run by replaying sampled paths natively: traces_validated_against_impl)",
			"standard-library calls on fully concrete arguments are executed natively; on symbolic arguments the library's own source is interpreted except for the intrinsics listed in stubs_used",
			"float64->int64 conversion of out-of-range values follows amd64 (0x8000000000000000)",
			"bounds: " + spec.Bounds,
		},
	}
	os.MkdirAll(filepath.Join(vd, "evidence"), 0o755)
	return writeJSON(filepath.Join(vd, "evidence", prop+".json"), ev)
}

func symForkPaths(results []*harnessResult) int64 {
	var n int64
	for _, hr := range results {
		n += hr.Stats.SymPaths
	}
	if n < 2 {
		return n
	}
	return n
}

func budgetOf(hr *harnessResult) int64 {
	if hr.Spec.Budget > 0 {
		return hr.Spec.Budget
	}
	return 400000
}

func round1(f float64) float64 {
	return float64(int64(f*10+0.5)) / 10
}
