// Package term implements hash-consed SMT terms (Bool, fixed-width bit-vectors, IEEE floats)
// with constant folding, concrete evaluation under a model and SMT-LIB2 printing.
package term

import (
	"fmt"
	"math"
	"math/bits"
	"strconv"
	"strings"
)

type Kind uint8

const (
	KBool Kind = iota
	KBV
	KFP // W = 64 or 32
)

type Sort struct {
	K Kind
	W uint16
}

var Bool = Sort{KBool, 1}

func BV(w int) Sort { return Sort{KBV, uint16(w)} }

var FP64 = Sort{KFP, 64}
var FP32 = Sort{KFP, 32}

func (s Sort) String() string {
	switch s.K {
	case KBool:
		return "Bool"
	case KBV:
		return fmt.Sprintf("(_ BitVec %d)", s.W)
	default:
		if s.W == 32 {
			return "(_ FloatingPoint 8 24)"
		}
		return "(_ FloatingPoint 11 53)"
	}
}

type Op uint8

const (
	OVar Op = iota
	OConst
	ONot
	OAnd
	OOr
	OEq
	OIte
	// BV
	OAdd
	OSub
	OMul
	OUDiv
	OSDiv
	OURem
	OSRem
	OBAnd
	OBOr
	OBXor
	OShl
	OLShr
	OAShr
	ONeg
	OBNot
	OULt
	OULe
	OSLt
	OSLe
	OZExt    // Sort.W is target width
	OSExt    // Sort.W is target width
	OExtract // C = lo, result width Sort.W
	OConcat
	// FP
	OFAdd
	OFSub
	OFMul
	OFDiv
	OFNeg
	OFAbs
	OFLt
	OFLe
	OFEq
	OFIsNaN
	OFToSBV  // fp -> signed bv (RTZ), result Sort
	OFToUBV  // fp -> unsigned bv (RTZ)
	OSBVToFP // signed bv -> fp (RNE)
	OUBVToFP
	OFToFP    // fp -> fp other precision (RNE)
	OFRound   // roundToIntegral; C = mode (0 RNE,1 RNA,2 RTP,3 RTN,4 RTZ)
	OBitsToFP // reinterpret bv as fp
	nOps
)

const (
	RNE = 0
	RNA = 1
	RTP = 2
	RTN = 3
	RTZ = 4
)

var rmNames = []string{"RNE", "RNA", "RTP", "RTN", "RTZ"}

// T is an immutable hash-consed term.
type T struct {
	Op    Op
	Sort  Sort
	Args  []*T
	C     uint64 // constant bits (Bool: 0/1; BV: value masked; FP: IEEE bits) or op parameter
	Name  string // OVar
	ID    int
	HasFP bool // some subterm is a floating-point operation
	// solver bookkeeping (per Store, single owner)
	DefEpoch int
	vars     []*T // cached free vars (lazily)
	varsDone bool
}

type key struct {
	op   Op
	sort Sort
	c    uint64
	name string
	a0   int
	a1   int
	a2   int
	n    int
}

// Store owns terms. Not safe for concurrent use.
type Store struct {
	tab   map[key]*T
	next  int
	True  *T
	False *T
	Vars  map[string]*T
}

func NewStore() *Store {
	s := &Store{tab: map[key]*T{}, Vars: map[string]*T{}}
	s.True = s.mk(OConst, Bool, 1, "", nil)
	s.False = s.mk(OConst, Bool, 0, "", nil)
	return s
}

func (s *Store) Size() int { return len(s.tab) }

func (s *Store) mk(op Op, sort Sort, c uint64, name string, args []*T) *T {
	k := key{op: op, sort: sort, c: c, name: name, n: len(args), a0: -1, a1: -1, a2: -1}
	if len(args) > 0 {
		k.a0 = args[0].ID
	}
	if len(args) > 1 {
		k.a1 = args[1].ID
	}
	if len(args) > 2 {
		k.a2 = args[2].ID
	}
	if len(args) > 3 {
		panic("term: too many args")
	}
	if t, ok := s.tab[k]; ok {
		return t
	}
	t := &T{Op: op, Sort: sort, Args: args, C: c, Name: name, ID: s.next}
	if op >= OFAdd && op <= OFRound {
		t.HasFP = true
	}
	for _, a := range args {
		if a.HasFP {
			t.HasFP = true
		}
	}
	s.next++
	s.tab[k] = t
	return t
}

func mask(w uint16) uint64 {
	if w >= 64 {
		return ^uint64(0)
	}
	return (uint64(1) << w) - 1
}

func sext(v uint64, w uint16) int64 {
	if w >= 64 {
		return int64(v)
	}
	sh := 64 - uint(w)
	return int64(v<<sh) >> sh
}

func (t *T) IsConst() bool { return t.Op == OConst }
func (t *T) IsTrue() bool  { return t.Op == OConst && t.Sort.K == KBool && t.C == 1 }
func (t *T) IsFalse() bool { return t.Op == OConst && t.Sort.K == KBool && t.C == 0 }

// ---- constructors ----

func (s *Store) Var(name string, sort Sort) *T {
	if v, ok := s.Vars[name]; ok {
		if v.Sort != sort {
			panic("term: var " + name + " redeclared with different sort")
		}
		return v
	}
	v := s.mk(OVar, sort, 0, name, nil)
	s.Vars[name] = v
	return v
}

func (s *Store) BoolC(b bool) *T {
	if b {
		return s.True
	}
	return s.False
}

func (s *Store) BVC(v uint64, w int) *T {
	return s.mk(OConst, BV(w), v&mask(uint16(w)), "", nil)
}

func (s *Store) FPC(f float64, sort Sort) *T {
	if sort.W == 32 {
		return s.mk(OConst, sort, uint64(math.Float32bits(float32(f))), "", nil)
	}
	return s.mk(OConst, sort, math.Float64bits(f), "", nil)
}

func fpVal(t *T) float64 {
	if t.Sort.W == 32 {
		return float64(math.Float32frombits(uint32(t.C)))
	}
	return math.Float64frombits(t.C)
}

func (s *Store) Not(a *T) *T {
	if a.IsConst() {
		return s.BoolC(a.C == 0)
	}
	if a.Op == ONot {
		return a.Args[0]
	}
	return s.mk(ONot, Bool, 0, "", []*T{a})
}

func (s *Store) And(a, b *T) *T {
	if a.IsConst() {
		if a.C == 0 {
			return s.False
		}
		return b
	}
	if b.IsConst() {
		if b.C == 0 {
			return s.False
		}
		return a
	}
	if a == b {
		return a
	}
	return s.mk(OAnd, Bool, 0, "", []*T{a, b})
}

func (s *Store) Or(a, b *T) *T {
	if a.IsConst() {
		if a.C == 1 {
			return s.True
		}
		return b
	}
	if b.IsConst() {
		if b.C == 1 {
			return s.True
		}
		return a
	}
	if a == b {
		return a
	}
	return s.mk(OOr, Bool, 0, "", []*T{a, b})
}

func (s *Store) AndN(ts ...*T) *T {
	r := s.True
	for _, t := range ts {
		r = s.And(r, t)
	}
	return r
}

func (s *Store) Eq(a, b *T) *T {
	if a.Sort != b.Sort {
		panic(fmt.Sprintf("term: Eq sort mismatch %v %v", a.Sort, b.Sort))
	}
	if a.Sort.K == KFP {
		panic("term: use FEq or BitsEq for FP")
	}
	if a == b {
		return s.True
	}
	if a.IsConst() && b.IsConst() {
		return s.BoolC(a.C == b.C)
	}
	if a.Sort.K == KBool {
		if a.IsConst() {
			a, b = b, a
		}
		if b.IsConst() {
			if b.C == 1 {
				return a
			}
			return s.Not(a)
		}
	}
	// (= (ite c k1 k2) k) with distinct constants
	if b.IsConst() && a.Op == OIte && a.Args[1].IsConst() && a.Args[2].IsConst() {
		k1, k2 := a.Args[1].C, a.Args[2].C
		if k1 != k2 {
			if b.C == k1 {
				return a.Args[0]
			}
			if b.C == k2 {
				return s.Not(a.Args[0])
			}
			return s.False
		}
	}
	if a.IsConst() && b.Op == OIte && b.Args[1].IsConst() && b.Args[2].IsConst() {
		return s.Eq(b, a)
	}
	// zext(x) == const
	if b.IsConst() && a.Op == OZExt {
		x := a.Args[0]
		if b.C > mask(x.Sort.W) {
			return s.False
		}
		return s.Eq(x, s.BVC(b.C, int(x.Sort.W)))
	}
	if a.IsConst() && b.Op == OZExt {
		return s.Eq(b, a)
	}
	if a.ID > b.ID {
		a, b = b, a
	}
	return s.mk(OEq, Bool, 0, "", []*T{a, b})
}

func (s *Store) Ite(c, a, b *T) *T {
	if a.Sort != b.Sort {
		panic("term: Ite sort mismatch")
	}
	if c.IsConst() {
		if c.C == 1 {
			return a
		}
		return b
	}
	if a == b {
		return a
	}
	if a.Sort.K == KBool {
		if a.IsTrue() && b.IsFalse() {
			return c
		}
		if a.IsFalse() && b.IsTrue() {
			return s.Not(c)
		}
	}
	return s.mk(OIte, a.Sort, 0, "", []*T{c, a, b})
}

func foldBV(op Op, w uint16, x, y uint64) (uint64, bool) {
	m := mask(w)
	switch op {
	case OAdd:
		return (x + y) & m, true
	case OSub:
		return (x - y) & m, true
	case OMul:
		return (x * y) & m, true
	case OUDiv:
		if y == 0 {
			return m, true
		}
		return (x / y) & m, true
	case OURem:
		if y == 0 {
			return x, true
		}
		return (x % y) & m, true
	case OSDiv:
		sx, sy := sext(x, w), sext(y, w)
		if sy == 0 {
			if sx >= 0 {
				return m, true
			}
			return 1, true
		}
		if sy == -1 {
			return uint64(-sx) & m, true
		}
		return uint64(sx/sy) & m, true
	case OSRem:
		sx, sy := sext(x, w), sext(y, w)
		if sy == 0 {
			return x, true
		}
		if sy == -1 {
			return 0, true
		}
		return uint64(sx%sy) & m, true
	case OBAnd:
		return x & y, true
	case OBOr:
		return x | y, true
	case OBXor:
		return x ^ y, true
	case OShl:
		if y >= uint64(w) {
			return 0, true
		}
		return (x << y) & m, true
	case OLShr:
		if y >= uint64(w) {
			return 0, true
		}
		return x >> y, true
	case OAShr:
		sx := sext(x, w)
		if y >= uint64(w) {
			if sx < 0 {
				return m, true
			}
			return 0, true
		}
		return uint64(sx>>y) & m, true
	}
	return 0, false
}

// BinBV builds a bit-vector binary arithmetic/logic op.
func (s *Store) BinBV(op Op, a, b *T) *T {
	if a.Sort != b.Sort || a.Sort.K != KBV {
		panic(fmt.Sprintf("term: BinBV sort mismatch op=%d %v %v", op, a.Sort, b.Sort))
	}
	w := a.Sort.W
	if a.IsConst() && b.IsConst() {
		v, _ := foldBV(op, w, a.C, b.C)
		return s.BVC(v, int(w))
	}
	switch op {
	case OAdd, OBOr, OBXor:
		if a.IsConst() && a.C == 0 {
			return b
		}
		if b.IsConst() && b.C == 0 {
			return a
		}
	case OSub, OShl, OLShr, OAShr:
		if b.IsConst() && b.C == 0 {
			return a
		}
		if op == OSub {
			if a == b {
				return s.BVC(0, int(w))
			}
			// (x + k) - x = k
			if a.Op == OAdd {
				if a.Args[0] == b && a.Args[1].IsConst() {
					return a.Args[1]
				}
				if a.Args[1] == b && a.Args[0].IsConst() {
					return a.Args[0]
				}
			}
		}
	case OMul:
		if a.IsConst() && a.C == 1 {
			return b
		}
		if b.IsConst() && b.C == 1 {
			return a
		}
		if (a.IsConst() && a.C == 0) || (b.IsConst() && b.C == 0) {
			return s.BVC(0, int(w))
		}
	case OBAnd:
		if a.IsConst() && a.C == mask(w) {
			return b
		}
		if b.IsConst() && b.C == mask(w) {
			return a
		}
		if (a.IsConst() && a.C == 0) || (b.IsConst() && b.C == 0) {
			return s.BVC(0, int(w))
		}
	}
	return s.mk(op, a.Sort, 0, "", []*T{a, b})
}

func (s *Store) Neg(a *T) *T {
	if a.IsConst() {
		return s.BVC(-a.C, int(a.Sort.W))
	}
	return s.mk(ONeg, a.Sort, 0, "", []*T{a})
}

func (s *Store) BNot(a *T) *T {
	if a.IsConst() {
		return s.BVC(^a.C, int(a.Sort.W))
	}
	return s.mk(OBNot, a.Sort, 0, "", []*T{a})
}

func foldCmp(op Op, w uint16, x, y uint64) bool {
	switch op {
	case OULt:
		return x < y
	case OULe:
		return x <= y
	case OSLt:
		return sext(x, w) < sext(y, w)
	case OSLe:
		return sext(x, w) <= sext(y, w)
	}
	panic("foldCmp")
}

// Cmp builds ULt/ULe/SLt/SLe.
func (s *Store) Cmp(op Op, a, b *T) *T {
	if a.Sort != b.Sort || a.Sort.K != KBV {
		panic("term: Cmp sort mismatch")
	}
	if a.IsConst() && b.IsConst() {
		return s.BoolC(foldCmp(op, a.Sort.W, a.C, b.C))
	}
	if a == b {
		return s.BoolC(op == OULe || op == OSLe)
	}
	// zero-extended byte compared against a constant: narrow
	if op == OULt || op == OULe || op == OSLt || op == OSLe {
		if a.Op == OZExt && b.IsConst() && a.Args[0].Sort.W < a.Sort.W {
			x := a.Args[0]
			xm := mask(x.Sort.W)
			bv := b.C
			neg := (op == OSLt || op == OSLe) && sext(bv, b.Sort.W) < 0
			if neg {
				return s.False // zext >= 0 > negative const
			}
			if bv > xm {
				return s.True
			}
			uop := OULt
			if op == OULe || op == OSLe {
				uop = OULe
			}
			return s.Cmp(uop, x, s.BVC(bv, int(x.Sort.W)))
		}
		if b.Op == OZExt && a.IsConst() && b.Args[0].Sort.W < b.Sort.W {
			x := b.Args[0]
			xm := mask(x.Sort.W)
			av := a.C
			neg := (op == OSLt || op == OSLe) && sext(av, a.Sort.W) < 0
			if neg {
				return s.True
			}
			if av > xm {
				return s.False
			}
			uop := OULt
			if op == OULe || op == OSLe {
				uop = OULe
			}
			return s.Cmp(uop, s.BVC(av, int(x.Sort.W)), x)
		}
	}
	return s.mk(op, Bool, 0, "", []*T{a, b})
}

func (s *Store) ZExt(a *T, w int) *T {
	if int(a.Sort.W) == w {
		return a
	}
	if int(a.Sort.W) > w {
		return s.Extract(a, 0, w)
	}
	if a.IsConst() {
		return s.BVC(a.C, w)
	}
	return s.mk(OZExt, BV(w), 0, "", []*T{a})
}

func (s *Store) SExt(a *T, w int) *T {
	if int(a.Sort.W) == w {
		return a
	}
	if int(a.Sort.W) > w {
		return s.Extract(a, 0, w)
	}
	if a.IsConst() {
		return s.BVC(uint64(sext(a.C, a.Sort.W)), w)
	}
	return s.mk(OSExt, BV(w), 0, "", []*T{a})
}

// Extract returns bits [lo, lo+w) of a.
func (s *Store) Extract(a *T, lo, w int) *T {
	if lo == 0 && int(a.Sort.W) == w {
		return a
	}
	if a.IsConst() {
		return s.BVC(a.C>>uint(lo), w)
	}
	if (a.Op == OZExt || a.Op == OSExt) && lo == 0 && w <= int(a.Args[0].Sort.W) {
		return s.Extract(a.Args[0], 0, w)
	}
	if a.Op == OZExt && lo >= int(a.Args[0].Sort.W) {
		return s.BVC(0, w)
	}
	return s.mk(OExtract, BV(w), uint64(lo), "", []*T{a})
}

func (s *Store) Concat(hi, lo *T) *T {
	w := int(hi.Sort.W + lo.Sort.W)
	if hi.IsConst() && lo.IsConst() {
		return s.BVC(hi.C<<lo.Sort.W|lo.C, w)
	}
	return s.mk(OConcat, BV(w), 0, "", []*T{hi, lo})
}

// ---- FP ----

func roundMode(f float64, mode uint64) float64 {
	switch mode {
	case RNE:
		return math.RoundToEven(f)
	case RNA:
		return math.Round(f)
	case RTP:
		return math.Ceil(f)
	case RTN:
		return math.Floor(f)
	default:
		return math.Trunc(f)
	}
}

func (s *Store) fpc(f float64, sort Sort) *T { return s.FPC(f, sort) }

func rnd32(f float64, sort Sort) float64 {
	if sort.W == 32 {
		return float64(float32(f))
	}
	return f
}

func (s *Store) FBin(op Op, a, b *T) *T {
	if a.Sort != b.Sort || a.Sort.K != KFP {
		panic("term: FBin sort mismatch")
	}
	if a.IsConst() && b.IsConst() {
		x, y := fpVal(a), fpVal(b)
		var r float64
		if a.Sort.W == 32 {
			x32, y32 := float32(x), float32(y)
			switch op {
			case OFAdd:
				r = float64(x32 + y32)
			case OFSub:
				r = float64(x32 - y32)
			case OFMul:
				r = float64(x32 * y32)
			case OFDiv:
				r = float64(x32 / y32)
			}
		} else {
			switch op {
			case OFAdd:
				r = x + y
			case OFSub:
				r = x - y
			case OFMul:
				r = x * y
			case OFDiv:
				r = x / y
			}
		}
		return s.FPC(r, a.Sort)
	}
	return s.mk(op, a.Sort, 0, "", []*T{a, b})
}

func (s *Store) FNeg(a *T) *T {
	if a.IsConst() {
		return s.FPC(-fpVal(a), a.Sort)
	}
	return s.mk(OFNeg, a.Sort, 0, "", []*T{a})
}

func (s *Store) FAbs(a *T) *T {
	if a.IsConst() {
		return s.FPC(math.Abs(fpVal(a)), a.Sort)
	}
	return s.mk(OFAbs, a.Sort, 0, "", []*T{a})
}

func (s *Store) FCmp(op Op, a, b *T) *T {
	if a.Sort != b.Sort || a.Sort.K != KFP {
		panic("term: FCmp sort mismatch")
	}
	if a.IsConst() && b.IsConst() {
		x, y := fpVal(a), fpVal(b)
		switch op {
		case OFLt:
			return s.BoolC(x < y)
		case OFLe:
			return s.BoolC(x <= y)
		case OFEq:
			return s.BoolC(x == y)
		}
	}
	return s.mk(op, Bool, 0, "", []*T{a, b})
}

func (s *Store) FIsNaN(a *T) *T {
	if a.IsConst() {
		return s.BoolC(math.IsNaN(fpVal(a)))
	}
	return s.mk(OFIsNaN, Bool, 0, "", []*T{a})
}

func (s *Store) FRound(a *T, mode int) *T {
	if a.IsConst() {
		return s.FPC(roundMode(fpVal(a), uint64(mode)), a.Sort)
	}
	return s.mk(OFRound, a.Sort, uint64(mode), "", []*T{a})
}

// FToBV converts fp to signed/unsigned bv with RTZ. Out-of-range behaviour is the caller's job.
func (s *Store) FToBV(a *T, w int, signed bool) *T {
	if a.IsConst() {
		return s.BVC(fToBVConc(fpVal(a), w, signed), w)
	}
	op := OFToUBV
	if signed {
		op = OFToSBV
	}
	return s.mk(op, BV(w), 0, "", []*T{a})
}

func fToBVConc(f float64, w int, signed bool) uint64 {
	if signed {
		return uint64(int64(f)) & mask(uint16(w))
	}
	return uint64(f) & mask(uint16(w))
}

func (s *Store) BVToFP(a *T, sort Sort, signed bool) *T {
	if a.IsConst() {
		if signed {
			return s.FPC(rnd32(float64(sext(a.C, a.Sort.W)), sort), sort)
		}
		return s.FPC(rnd32(float64(a.C), sort), sort)
	}
	op := OUBVToFP
	if signed {
		op = OSBVToFP
	}
	return s.mk(op, sort, 0, "", []*T{a})
}

func (s *Store) FToFP(a *T, sort Sort) *T {
	if a.Sort == sort {
		return a
	}
	if a.IsConst() {
		return s.FPC(fpVal(a), sort)
	}
	return s.mk(OFToFP, sort, 0, "", []*T{a})
}

func (s *Store) BitsToFP(a *T, sort Sort) *T {
	if a.IsConst() {
		return s.mk(OConst, sort, a.C, "", nil)
	}
	return s.mk(OBitsToFP, sort, 0, "", []*T{a})
}

// ---- free variables ----

func (t *T) Vars() []*T {
	if t.varsDone {
		return t.vars
	}
	seen := map[int]bool{}
	var out []*T
	var walk func(x *T)
	walk = func(x *T) {
		if seen[x.ID] {
			return
		}
		seen[x.ID] = true
		if x.varsDone {
			for _, v := range x.vars {
				if !seen[-v.ID-1] {
					seen[-v.ID-1] = true
					out = append(out, v)
				}
			}
			return
		}
		if x.Op == OVar {
			if !seen[-x.ID-1] {
				seen[-x.ID-1] = true
				out = append(out, x)
			}
			return
		}
		for _, a := range x.Args {
			walk(a)
		}
	}
	walk(t)
	t.vars = out
	t.varsDone = true
	return out
}

// ---- evaluation under a model ----

// Model maps variable name to bits.
type Model map[string]uint64

// Eval computes the concrete value (bits) of t under m; missing variables are 0.
func Eval(t *T, m Model, memo map[int]uint64) uint64 {
	if t.Op == OConst {
		return t.C
	}
	if t.Op == OVar {
		return m[t.Name] & mask(t.Sort.W)
	}
	if v, ok := memo[t.ID]; ok {
		return v
	}
	var r uint64
	a := t.Args
	ev := func(i int) uint64 { return Eval(a[i], m, memo) }
	b2u := func(b bool) uint64 {
		if b {
			return 1
		}
		return 0
	}
	fv := func(i int) float64 {
		v := ev(i)
		if a[i].Sort.W == 32 {
			return float64(math.Float32frombits(uint32(v)))
		}
		return math.Float64frombits(v)
	}
	fbits := func(f float64, sort Sort) uint64 {
		if sort.W == 32 {
			return uint64(math.Float32bits(float32(f)))
		}
		return math.Float64bits(f)
	}
	switch t.Op {
	case ONot:
		r = 1 - ev(0)
	case OAnd:
		r = ev(0) & ev(1)
	case OOr:
		r = ev(0) | ev(1)
	case OEq:
		r = b2u(ev(0) == ev(1))
	case OIte:
		if ev(0) == 1 {
			r = ev(1)
		} else {
			r = ev(2)
		}
	case OAdd, OSub, OMul, OUDiv, OSDiv, OURem, OSRem, OBAnd, OBOr, OBXor, OShl, OLShr, OAShr:
		r, _ = foldBV(t.Op, t.Sort.W, ev(0), ev(1))
	case ONeg:
		r = (-ev(0)) & mask(t.Sort.W)
	case OBNot:
		r = (^ev(0)) & mask(t.Sort.W)
	case OULt, OULe, OSLt, OSLe:
		r = b2u(foldCmp(t.Op, a[0].Sort.W, ev(0), ev(1)))
	case OZExt:
		r = ev(0)
	case OSExt:
		r = uint64(sext(ev(0), a[0].Sort.W)) & mask(t.Sort.W)
	case OExtract:
		r = (ev(0) >> t.C) & mask(t.Sort.W)
	case OConcat:
		r = ev(0)<<a[1].Sort.W | ev(1)
	case OFAdd, OFSub, OFMul, OFDiv:
		x, y := fv(0), fv(1)
		var f float64
		if t.Sort.W == 32 {
			x32, y32 := float32(x), float32(y)
			switch t.Op {
			case OFAdd:
				f = float64(x32 + y32)
			case OFSub:
				f = float64(x32 - y32)
			case OFMul:
				f = float64(x32 * y32)
			case OFDiv:
				f = float64(x32 / y32)
			}
		} else {
			switch t.Op {
			case OFAdd:
				f = x + y
			case OFSub:
				f = x - y
			case OFMul:
				f = x * y
			case OFDiv:
				f = x / y
			}
		}
		r = fbits(f, t.Sort)
	case OFNeg:
		// flip sign bit (exact, also for NaN)
		v := ev(0)
		r = v ^ (uint64(1) << (t.Sort.W - 1))
	case OFAbs:
		v := ev(0)
		r = v &^ (uint64(1) << (t.Sort.W - 1))
	case OFLt:
		r = b2u(fv(0) < fv(1))
	case OFLe:
		r = b2u(fv(0) <= fv(1))
	case OFEq:
		r = b2u(fv(0) == fv(1))
	case OFIsNaN:
		r = b2u(math.IsNaN(fv(0)))
	case OFToSBV:
		r = fToBVConc(fv(0), int(t.Sort.W), true)
	case OFToUBV:
		r = fToBVConc(fv(0), int(t.Sort.W), false)
	case OSBVToFP:
		r = fbits(float64(sext(ev(0), a[0].Sort.W)), t.Sort)
	case OUBVToFP:
		r = fbits(float64(ev(0)), t.Sort)
	case OFToFP:
		r = fbits(fv(0), t.Sort)
	case OFRound:
		r = fbits(roundMode(fv(0), t.C), t.Sort)
	case OBitsToFP:
		r = ev(0)
	default:
		panic(fmt.Sprintf("term.Eval: op %d", t.Op))
	}
	if memo != nil {
		memo[t.ID] = r
	}
	return r
}

// ---- SMT-LIB printing ----

func bvLit(v uint64, w uint16) string {
	if w%4 == 0 {
		return fmt.Sprintf("#x%0*x", int(w/4), v&mask(w))
	}
	return fmt.Sprintf("#b%0*b", int(w), v&mask(w))
}

func fpLit(bitsv uint64, sort Sort) string {
	if sort.W == 32 {
		return fmt.Sprintf("(fp #b%d #b%08b #b%023b)", (bitsv>>31)&1, (bitsv>>23)&0xff, bitsv&0x7fffff)
	}
	return fmt.Sprintf("(fp #b%d #b%011b #x%013x)", (bitsv>>63)&1, (bitsv>>52)&0x7ff, bitsv&0xfffffffffffff)
}

// VarSMTName is the solver-side name of a variable.
func VarSMTName(name string) string {
	return "|" + name + "|"
}

// Ref returns how t is referenced inside other terms: literals and variables inline, others by name.
func (t *T) Ref() string {
	switch t.Op {
	case OConst:
		switch t.Sort.K {
		case KBool:
			if t.C == 1 {
				return "true"
			}
			return "false"
		case KBV:
			return bvLit(t.C, t.Sort.W)
		default:
			return fpLit(t.C, t.Sort)
		}
	case OVar:
		if t.Sort.K == KFP {
			// FP variables are declared as bit-vectors and reinterpreted
			if t.Sort.W == 32 {
				return "((_ to_fp 8 24) " + VarSMTName(t.Name) + ")"
			}
			return "((_ to_fp 11 53) " + VarSMTName(t.Name) + ")"
		}
		return VarSMTName(t.Name)
	}
	return "t" + strconv.Itoa(t.ID)
}

var opNames = map[Op]string{
	ONot: "not", OAnd: "and", OOr: "or", OEq: "=", OIte: "ite",
	OAdd: "bvadd", OSub: "bvsub", OMul: "bvmul", OUDiv: "bvudiv", OSDiv: "bvsdiv", OURem: "bvurem", OSRem: "bvsrem",
	OBAnd: "bvand", OBOr: "bvor", OBXor: "bvxor", OShl: "bvshl", OLShr: "bvlshr", OAShr: "bvashr",
	ONeg: "bvneg", OBNot: "bvnot", OULt: "bvult", OULe: "bvule", OSLt: "bvslt", OSLe: "bvsle", OConcat: "concat",
	OFNeg: "fp.neg", OFAbs: "fp.abs", OFLt: "fp.lt", OFLe: "fp.leq", OFEq: "fp.eq", OFIsNaN: "fp.isNaN",
}

func fpIdx(s Sort) string {
	if s.W == 32 {
		return "8 24"
	}
	return "11 53"
}

// Body returns the SMT-LIB expression of t in terms of Ref()s of its arguments.
func (t *T) Body() string {
	var sb strings.Builder
	args := func() {
		for _, a := range t.Args {
			sb.WriteByte(' ')
			sb.WriteString(a.Ref())
		}
	}
	switch t.Op {
	case OVar, OConst:
		return t.Ref()
	case OZExt:
		fmt.Fprintf(&sb, "((_ zero_extend %d)", t.Sort.W-t.Args[0].Sort.W)
		args()
	case OSExt:
		fmt.Fprintf(&sb, "((_ sign_extend %d)", t.Sort.W-t.Args[0].Sort.W)
		args()
	case OExtract:
		fmt.Fprintf(&sb, "((_ extract %d %d)", int(t.C)+int(t.Sort.W)-1, t.C)
		args()
	case OFAdd, OFSub, OFMul, OFDiv:
		n := map[Op]string{OFAdd: "fp.add", OFSub: "fp.sub", OFMul: "fp.mul", OFDiv: "fp.div"}[t.Op]
		sb.WriteString("(" + n + " RNE")
		args()
	case OFToSBV:
		fmt.Fprintf(&sb, "((_ fp.to_sbv %d) RTZ", t.Sort.W)
		args()
	case OFToUBV:
		fmt.Fprintf(&sb, "((_ fp.to_ubv %d) RTZ", t.Sort.W)
		args()
	case OSBVToFP:
		fmt.Fprintf(&sb, "((_ to_fp %s) RNE", fpIdx(t.Sort))
		args()
	case OUBVToFP:
		fmt.Fprintf(&sb, "((_ to_fp_unsigned %s) RNE", fpIdx(t.Sort))
		args()
	case OFToFP:
		fmt.Fprintf(&sb, "((_ to_fp %s) RNE", fpIdx(t.Sort))
		args()
	case OFRound:
		fmt.Fprintf(&sb, "(fp.roundToIntegral %s", rmNames[t.C])
		args()
	case OBitsToFP:
		fmt.Fprintf(&sb, "((_ to_fp %s)", fpIdx(t.Sort))
		args()
	default:
		n, ok := opNames[t.Op]
		if !ok {
			panic(fmt.Sprintf("term.Body: op %d", t.Op))
		}
		sb.WriteString("(" + n)
		args()
	}
	sb.WriteByte(')')
	return sb.String()
}

// VarDeclSort is the sort under which a variable is declared in the solver (FP vars as BV).
func (t *T) VarDeclSort() string {
	if t.Sort.K == KFP {
		return BV(int(t.Sort.W)).String()
	}
	return t.Sort.String()
}

// String renders the term fully inlined (for debugging / evidence samples); may be large.
func (t *T) String() string {
	if t.Op == OVar || t.Op == OConst {
		return t.Ref()
	}
	var sb strings.Builder
	sb.WriteString("(")
	sb.WriteString(strings.TrimSuffix(strings.TrimPrefix(strings.SplitN(t.Body(), " ", 2)[0], "("), ")"))
	for _, a := range t.Args {
		sb.WriteByte(' ')
		sb.WriteString(a.String())
	}
	sb.WriteString(")")
	return sb.String()
}

var _ = bits.Len64

// Make rebuilds a term of the given shape through the folding constructors.
func (s *Store) Make(op Op, sort Sort, c uint64, args []*T) *T {
	switch op {
	case ONot:
		return s.Not(args[0])
	case OAnd:
		return s.And(args[0], args[1])
	case OOr:
		return s.Or(args[0], args[1])
	case OEq:
		return s.Eq(args[0], args[1])
	case OIte:
		return s.Ite(args[0], args[1], args[2])
	case OAdd, OSub, OMul, OUDiv, OSDiv, OURem, OSRem, OBAnd, OBOr, OBXor, OShl, OLShr, OAShr:
		return s.BinBV(op, args[0], args[1])
	case ONeg:
		return s.Neg(args[0])
	case OBNot:
		return s.BNot(args[0])
	case OULt, OULe, OSLt, OSLe:
		return s.Cmp(op, args[0], args[1])
	case OZExt:
		return s.ZExt(args[0], int(sort.W))
	case OSExt:
		return s.SExt(args[0], int(sort.W))
	case OExtract:
		return s.Extract(args[0], int(c), int(sort.W))
	case OConcat:
		return s.Concat(args[0], args[1])
	case OFAdd, OFSub, OFMul, OFDiv:
		return s.FBin(op, args[0], args[1])
	case OFNeg:
		return s.FNeg(args[0])
	case OFAbs:
		return s.FAbs(args[0])
	case OFLt, OFLe, OFEq:
		return s.FCmp(op, args[0], args[1])
	case OFIsNaN:
		return s.FIsNaN(args[0])
	case OFToSBV:
		return s.FToBV(args[0], int(sort.W), true)
	case OFToUBV:
		return s.FToBV(args[0], int(sort.W), false)
	case OSBVToFP:
		return s.BVToFP(args[0], sort, true)
	case OUBVToFP:
		return s.BVToFP(args[0], sort, false)
	case OFToFP:
		return s.FToFP(args[0], sort)
	case OFRound:
		return s.FRound(args[0], int(c))
	case OBitsToFP:
		return s.BitsToFP(args[0], sort)
	}
	panic(fmt.Sprintf("term.Make: op %d", op))
}

// Subst replaces variables (by ID) with the given terms, re-folding on the way up.
func (s *Store) Subst(t *T, bind map[int]*T, memo map[int]*T) *T {
	if t.Op == OConst {
		return t
	}
	if t.Op == OVar {
		if b, ok := bind[t.ID]; ok {
			return b
		}
		return t
	}
	if r, ok := memo[t.ID]; ok {
		return r
	}
	// quick reject: no bound variable occurs
	hit := false
	for _, v := range t.Vars() {
		if _, ok := bind[v.ID]; ok {
			hit = true
			break
		}
	}
	if !hit {
		memo[t.ID] = t
		return t
	}
	args := make([]*T, len(t.Args))
	for i, a := range t.Args {
		args[i] = s.Subst(a, bind, memo)
	}
	r := s.Make(t.Op, t.Sort, t.C, args)
	memo[t.ID] = r
	return r
}
